package main

import (
	"fmt"
	"os"
	"runtime"
	"go/token"
	"go/types"
	"sort"
	"strings"

	"golang.org/x/tools/go/ssa"
)

type externFn func(x *Exec, st *State, fr *frame, call *ssa.CallCommon, args []Val, pos token.Pos) []callOut

// ---------------------------------------------------------------- mod sets

type ModSet struct {
	all    bool
	heaps  map[string]bool
	allocs map[*ssa.Alloc]bool
	freeVarStore, interior bool
}

func newModSet() *ModSet { return &ModSet{heaps: map[string]bool{}, allocs: map[*ssa.Alloc]bool{}} }

func (m *ModSet) union(o *ModSet) {
	if o.all {
		m.all = true
	}
	for h := range o.heaps {
		m.heaps[h] = true
	}
}

func (e *Engine) structFieldIDs(t types.Type, ms *ModSet) {
	si := e.structInfo(t)
	for i := range si.Fields {
		ms.heaps[fieldHeapID(si, i)] = true
	}
}

// storeTarget classifies the heap region written through pointer value v.
func (e *Engine) storeTarget(v ssa.Value, ms *ModSet) {
	switch v := v.(type) {
	case *ssa.Alloc:
		ms.allocs[v] = true
		// if the cell gets promoted to the heap its fields live in field heaps
		et := v.Type().(*types.Pointer).Elem()
		if v.Heap {
			if isStruct(et) {
				e.structFieldIDs(et, ms)
			} else if at, ok := et.Underlying().(*types.Array); ok {
				ms.heaps[elemHeapID(at.Elem())] = true
			} else {
				ms.heaps[ptrHeapID(et)] = true
			}
		}
	case *ssa.FieldAddr:
		// find root
		switch r := v.X.(type) {
		case *ssa.FieldAddr, *ssa.IndexAddr, *ssa.Alloc:
			e.storeTarget(r, ms)
			if _, ok := r.(*ssa.Alloc); ok {
				return
			}
			return
		}
		st := v.X.Type().Underlying().(*types.Pointer).Elem()
		si := e.structInfo(st)
		ms.heaps[fieldHeapID(si, v.Field)] = true
	case *ssa.IndexAddr:
		switch u := v.X.Type().Underlying().(type) {
		case *types.Slice:
			ms.heaps[elemHeapID(u.Elem())] = true
		case *types.Pointer:
			ms.heaps[elemHeapID(u.Elem().Underlying().(*types.Array).Elem())] = true
		}
	case *ssa.Global:
		ms.heaps["G:"+v.Pkg.Pkg.Name()+"."+v.Name()] = true
	case *ssa.FreeVar:
		// captured variable of the enclosing function: a cell there (possibly promoted)
		et := v.Type().(*types.Pointer).Elem()
		ms.freeVarStore = true
		if isStruct(et) {
			e.structFieldIDs(et, ms)
		} else {
			ms.heaps[ptrHeapID(et)] = true
		}
	default:
		pt, ok := v.Type().Underlying().(*types.Pointer)
		if !ok {
			ms.all = true
			return
		}
		et := pt.Elem()
		if isStruct(et) {
			e.structFieldIDs(et, ms)
		} else {
			ms.heaps[ptrHeapID(et)] = true
			// the pointer may also be an interior pointer into a struct or slice: be conservative
			ms.interior = true
		}
	}
}

func (e *Engine) instrMods(in ssa.Instruction, ms *ModSet, visiting map[*ssa.Function]bool) {
	switch in := in.(type) {
	case *ssa.Store:
		e.storeTarget(in.Addr, ms)
	case *ssa.MapUpdate:
		h, v, l := mapIDs(in.Map.Type())
		ms.heaps[h], ms.heaps[v], ms.heaps[l] = true, true, true
	case *ssa.MakeMap:
		h, _, l := mapIDs(in.Type())
		ms.heaps[h], ms.heaps[l] = true, true
	case *ssa.Alloc:
		if in.Heap {
			ms.heaps[allocHeap] = true
		}
	case *ssa.MakeSlice, *ssa.MakeChan:
		ms.heaps[allocHeap] = true
	case *ssa.Call:
		e.callMods(&in.Call, ms, visiting)
	case *ssa.Defer:
		e.callMods(&in.Call, ms, visiting)
	case *ssa.Go:
		// thread-modular: the spawned goroutine's effects are not part of this function's frame
	case *ssa.Send, *ssa.Select:
		// ownership transfer on send: object-attached ghost ledgers of the sent object become unknown
		sends := true
		if sel, ok := in.(*ssa.Select); ok {
			sends = false
			for _, st := range sel.States {
				if st.Dir == types.SendOnly {
					sends = true
				}
			}
		}
		if sends {
			for _, gn := range e.zeroGhosts() {
				ms.heaps["gh:"+gn] = true
			}
		}
	}
}

func (e *Engine) callMods(c *ssa.CallCommon, ms *ModSet, visiting map[*ssa.Function]bool) {
	if c.IsInvoke() {
		if ic := e.ifaceContractFor(c); ic != nil && ic.HasMod {
			for _, h := range ic.Modifies {
				ms.heaps[e.modName(h)] = true
			}
			return
		}
		if em, ok := e.externMods["invoke:"+invokeName(c)]; ok {
			for _, h := range em {
				ms.heaps[h] = true
			}
			return
		}
		ms.all = true
		return
	}
	if b, ok := c.Value.(*ssa.Builtin); ok {
		switch b.Name() {
		case "append", "copy":
			if s, ok := c.Args[0].Type().Underlying().(*types.Slice); ok {
				ms.heaps[elemHeapID(s.Elem())] = true
				ms.heaps[allocHeap] = true
			}
		case "delete":
			h, v, l := mapIDs(c.Args[0].Type())
			ms.heaps[h], ms.heaps[v], ms.heaps[l] = true, true, true
		case "close":
			ms.heaps["gh:closedch"] = true
		}
		return
	}
	fn := c.StaticCallee()
	if fn == nil {
		if mc, ok := c.Value.(*ssa.MakeClosure); ok {
			fn = mc.Fn.(*ssa.Function)
		}
	}
	if fn == nil {
		// call through a local variable that is assigned exactly one closure
		if mc := singleClosure(c.Value); mc != nil {
			fn = mc.Fn.(*ssa.Function)
		}
	}
	if fn == nil && typeKey(c.Value.Type()) == "context.CancelFunc" {
		ms.heaps["gh:cancelled"] = true
		return
	}
	if fn == nil {
		ms.all = true
		return
	}
	name := e.shortName(fn)
	if em, ok := e.externMods[name]; ok {
		for _, h := range em {
			if h == "$inttargets" {
				// binary.Read(r, order, data): when data is visibly a pointer boxed at the call site, the target is that pointer's
				var tgt ssa.Value
				if len(c.Args) == 3 {
					if mi, ok := c.Args[2].(*ssa.MakeInterface); ok {
						if _, isPtr := mi.X.Type().Underlying().(*types.Pointer); isPtr {
							tgt = mi.X
						}
					}
				}
				if tgt != nil {
					e.storeTarget(tgt, ms)
					continue
				}
			}
			ms.heaps[h] = true
		}
		return
	}
	if ct := e.contracts[name]; ct != nil && ct.HasMod {
		for _, h := range ct.Modifies {
			ms.heaps[e.modName(h)] = true
		}
		return
	}
	if fn.Blocks == nil || !e.analysed(fn) {
		if e.pureExterns[name] || e.pureExternPkg(fn) || name == "syscall.(*Timespec).Unix" {
			return
		}
		ms.all = true
		e.notes["call to unmodelled function "+name+" treated as modifying everything"] = true
		return
	}
	ms.union(e.modset(fn, visiting))
}

// modName maps a name in a "modifies" clause to a heap id.
func (e *Engine) modName(n string) string {
	if strings.Contains(n, ":") || n == allocHeap {
		return n
	}
	if _, ok := e.ghosts[n]; ok {
		return "gh:" + n
	}
	return "F:" + n
}

func (e *Engine) modset(fn *ssa.Function, visiting map[*ssa.Function]bool) *ModSet {
	if ms, ok := e.modsets[fn]; ok {
		return ms
	}
	if visiting == nil {
		visiting = map[*ssa.Function]bool{}
	}
	if visiting[fn] {
		return newModSet() // recursion: the fixpoint is reached by the outer computation
	}
	visiting[fn] = true
	ms := newModSet()
	e.hookMods(fn, ms)
	for _, b := range fn.Blocks {
		for _, in := range b.Instrs {
			e.instrMods(in, ms, visiting)
		}
	}
	// closures created here run on behalf of this function only if they are called, deferred or passed to a callee;
	// closures that are merely stored or returned are accounted for where they are called.
	for _, b := range fn.Blocks {
		for _, in := range b.Instrs {
			mc, ok := in.(*ssa.MakeClosure)
			if !ok {
				continue
			}
			if closureRunsHere(mc) {
				ms.union(e.modset(mc.Fn.(*ssa.Function), visiting))
			}
		}
	}
	delete(visiting, fn)
	if len(visiting) == 0 {
		e.modsets[fn] = ms
	}
	return ms
}

func (e *Engine) loopModSet(fn *ssa.Function, li *loopInfo) *ModSet {
	ms := newModSet()
	e.hookMods(fn, ms)
	for b := range li.blocks {
		for _, in := range b.Instrs {
			e.instrMods(in, ms, map[*ssa.Function]bool{})
			// closures invoked inside the loop store through free variables: map them to the allocs
			if c, ok := in.(*ssa.Call); ok {
				e.closureAllocMods(&c.Call, ms)
			}
		}
	}
	return ms
}

// closureAllocMods: a closure called in a loop may assign captured locals of the enclosing function.
func (e *Engine) closureAllocMods(c *ssa.CallCommon, ms *ModSet) {
	var mc *ssa.MakeClosure
	if m, ok := c.Value.(*ssa.MakeClosure); ok {
		mc = m
	}
	for _, a := range c.Args {
		if m, ok := a.(*ssa.MakeClosure); ok {
			mc = m
			e.markBindings(m, ms)
		}
	}
	if mc != nil {
		e.markBindings(mc, ms)
	}
}

func (e *Engine) markBindings(mc *ssa.MakeClosure, ms *ModSet) {
	fn := mc.Fn.(*ssa.Function)
	for i, fv := range fn.FreeVars {
		stored := false
		for _, r := range *fv.Referrers() {
			if s, ok := r.(*ssa.Store); ok && s.Addr == fv {
				stored = true
			}
			if _, ok := r.(*ssa.FieldAddr); ok {
				stored = true
			}
		}
		if al, ok := mc.Bindings[i].(*ssa.Alloc); ok && stored {
			ms.allocs[al] = true
		}
	}
}

func (st *State) havocSet(ms *ModSet) {
	if os.Getenv("P9VC_TRACE") != "" {
		var hs []string
		for h := range ms.heaps {
			hs = append(hs, h)
		}
		fmt.Fprintf(os.Stderr, "havocSet all=%v %v\n", ms.all, hs)
	}
	if ms.all {
		st.havocAll()
		return
	}
	if ms.heaps["$inttargets"] {
		// binary.Read(r, order, p) stores through a pointer whose static type is interface{}: the target can be any
		// location that holds fixed-size integers (a variable, a struct field, a slice element or a field of one)
		for _, id := range sortedKeys(st.heap) {
			if len(id) < 2 || id[1] != ':' || (id[0] != 'P' && id[0] != 'F' && id[0] != 'E') || ms.heaps[id] {
				continue
			}
			so := st.e.heapSorts[id]
			if strings.HasSuffix(so, " Int)") || strings.HasSuffix(so, " Int))") || strings.Contains(so, " S_") {
				st.havocHeap(id)
			}
		}
		st.epoch++ // heaps not mentioned yet on this path are not their initial versions either
	}
	var ids []string
	for h := range ms.heaps {
		ids = append(ids, h)
	}
	sort.Strings(ids)
	for _, h := range ids {
		if h == allocHeap {
			st.growAlloc()
			continue
		}
		if st.e.heapSortFromID(h) == "" {
			st.pendingHavoc(h)
			continue
		}
		st.havocHeap(h)
	}
	if st.e.curElemPtrs {
		// with pointers to slice elements modelled, a store to field f of a *S may have hit an element of a []S
		done := map[string]bool{}
		for h := range ms.heaps {
			if strings.HasPrefix(h, "F:") {
				if i := strings.LastIndex(h, "."); i > 2 {
					eh := "E:" + h[2:i]
					if !ms.heaps[eh] && !done[eh] {
						done[eh] = true
						if st.e.heapSortFromID(eh) == "" {
							st.pendingHavoc(eh)
						} else {
							st.havocHeap(eh)
						}
					}
				}
			}
		}
	}
	if ms.interior {
		// stores through pointers of unknown provenance: conservatively everything of that sort
		st.e.notes["store through a pointer of unknown provenance inside a havoc region"] = true
		if st.e.curElemPtrs {
			// with pointers to slice elements modelled, a store through *T may have hit an element of a []T
			for h := range ms.heaps {
				if strings.HasPrefix(h, "P:") && !ms.heaps["E:"+h[2:]] {
					if st.e.heapSortFromID("E:"+h[2:]) == "" {
						st.pendingHavoc("E:" + h[2:])
					} else {
						st.havocHeap("E:" + h[2:])
					}
				}
			}
		}
	}
}

// pendingHavoc remembers that heap id (not yet declared) must not be identified with its initial version.
func (st *State) pendingHavoc(id string) {
	if st.stale == nil {
		st.stale = map[string]int{}
	} else {
		n := make(map[string]int, len(st.stale)+1)
		for k, v := range st.stale {
			n[k] = v
		}
		st.stale = n
	}
	st.stale[id]++
}

func (st *State) growAlloc() {
	a := st.allocTerm()
	n := st.e.freshName("alloc")
	st.declare(n, "(Array Int Bool)")
	st.assume("(forall ((l Int)) (! (=> (select " + a + " l) (select " + n + " l)) :pattern ((select " + n + " l))))")
	st.heap[allocHeap] = n
}

func (st *State) havocAll() {
	if os.Getenv("P9VC_TRACE") != "" {
		fmt.Fprintf(os.Stderr, "havocAll\n")
	}
	if os.Getenv("P9VC_DEBUG_HAVOC") != "" {
		buf := make([]byte, 3000)
		buf = buf[:runtime.Stack(buf, false)]
		fmt.Println("HAVOC-ALL\n" + string(buf))
	}
	for _, id := range sortedKeys(st.heap) {
		if id == allocHeap {
			st.growAlloc()
			continue
		}
		st.havocHeap(id)
	}
	st.epoch++
}

// ---------------------------------------------------------------- maps

func (st *State) mapStore(t types.Type, m, k, v string) {
	hid, vid, lid := mapIDs(t)
	ks, vs := st.mapSorts(t)
	hs := "(Array Int (Array " + ks + " Bool))"
	vsort := "(Array Int (Array " + ks + " " + vs + "))"
	had := st.name("had", "Bool", st.mapHas(t, m, k))
	h := st.heapTerm(hid, hs)
	st.setHeap(hid, hs, "(store "+h+" "+m+" (store (select "+h+" "+m+") "+k+" true))")
	hv := st.heapTerm(vid, vsort)
	st.setHeap(vid, vsort, "(store "+hv+" "+m+" (store (select "+hv+" "+m+") "+k+" "+v+"))")
	l := st.heapTerm(lid, "(Array Int Int)")
	st.setHeap(lid, "(Array Int Int)", "(store "+l+" "+m+" (+ (select "+l+" "+m+") (ite "+had+" 0 1)))")
}

func (st *State) mapDelete(t types.Type, m, k string) {
	hid, _, lid := mapIDs(t)
	ks, _ := st.mapSorts(t)
	hs := "(Array Int (Array " + ks + " Bool))"
	had := st.name("had", "Bool", st.mapHas(t, m, k))
	h := st.heapTerm(hid, hs)
	st.setHeap(hid, hs, "(store "+h+" "+m+" (store (select "+h+" "+m+") "+k+" false))")
	l := st.heapTerm(lid, "(Array Int Int)")
	st.setHeap(lid, "(Array Int Int)", "(store "+l+" "+m+" (- (select "+l+" "+m+") (ite "+had+" 1 0)))")
}

// ---------------------------------------------------------------- calls

func invokeName(c *ssa.CallCommon) string {
	t := c.Value.Type()
	n := typeKey(t)
	return n + "." + c.Method.Name()
}

func (e *Engine) ifaceContractFor(c *ssa.CallCommon) *Contract {
	return e.ifaceContracts[invokeName(c)]
}

func (e *Engine) analysed(fn *ssa.Function) bool {
	p := fn.Pkg
	if p == nil && fn.Parent() != nil {
		return e.analysed(fn.Parent())
	}
	if p == nil {
		return false
	}
	for _, m := range e.mainPkg {
		if m == p {
			return true
		}
	}
	return false
}

func (e *Engine) pureExternPkg(fn *ssa.Function) bool {
	if fn.Pkg == nil {
		return false
	}
	switch fn.Pkg.Pkg.Path() {
	case "strings", "path", "path/filepath", "fmt", "log", "errors", "strconv", "time", "unicode/utf8", "math", "sort", "os/user", "io/fs":
		return true
	}
	return false
}

func one(st *State, v Val) []callOut { return []callOut{{st: st, val: v}} }

func (x *Exec) doCall(st *State, fr *frame, in ssa.Value, c *ssa.CallCommon, pos token.Pos) []callOut {
	var args []Val
	for _, a := range c.Args {
		args = append(args, x.val(st, fr, a))
	}
	if c.IsInvoke() {
		recv := x.val(st, fr, c.Value)
		return x.doInvoke(st, fr, c, recv, args, pos)
	}
	if b, ok := c.Value.(*ssa.Builtin); ok {
		return x.builtin(st, fr, b, c, args, pos)
	}
	fn := c.StaticCallee()
	if fn != nil {
		var bindings []Val
		if mc, ok := c.Value.(*ssa.MakeClosure); ok {
			for _, b := range mc.Bindings {
				bindings = append(bindings, x.val(st, fr, b))
			}
		}
		return x.callFunc(st, fr, fn, bindings, args, c, pos)
	}
	fv := x.val(st, fr, c.Value)
	if fv.Clo != nil {
		return x.callFunc(st, fr, fv.Clo.Fn, fv.Clo.Bindings, args, c, pos)
	}
	return x.callFuncValue(st, fr, fv, args, c, pos)
}

// callFuncValue: call through a function value not created on this path.
func (x *Exec) callFuncValue(st *State, fr *frame, fv Val, args []Val, c *ssa.CallCommon, pos token.Pos) []callOut {
	if cl := st.resolveClosure(fv.T); cl != nil {
		return x.callFunc(st, fr, cl.Fn, cl.Bindings, args, c, pos)
	}
	// contract of a func-valued struct field: iface <Struct>.<field>.call
	if u, ok := c.Value.(*ssa.UnOp); ok {
		if fa, ok := u.X.(*ssa.FieldAddr); ok {
			if pt, ok := fa.X.Type().Underlying().(*types.Pointer); ok {
				if stt, ok := pt.Elem().Underlying().(*types.Struct); ok {
					key := typeKey(pt.Elem()) + "." + stt.Field(fa.Field).Name() + ".call"
					if ct := x.e.ifaceContracts[key]; ct != nil {
						x.obligeAt(st, fr, "nil-func", pos, "", "(not (= "+st.term(fv)+" 0))")
						return x.applyContract(st, fr, ct, c.Signature(), nil, append([]Val{fv}, args...), pos, key)
					}
				}
			}
		}
	}
	// func-type contract?
	if n, ok := c.Value.Type().(*types.Named); ok {
		if ct := x.e.ifaceContracts[typeKey(n)+".call"]; ct != nil {
			return x.applyContract(st, fr, ct, c.Signature(), nil, append([]Val{fv}, args...), pos, typeKey(n))
		}
	}
	if typeKey(c.Value.Type()) == "context.CancelFunc" {
		// calling the cancel function of a context cancels that context (ghost: cancels(fn) = context identity)
		x.obligeAt(st, fr, "nil-func", pos, "cancel", "(not (= "+st.term(fv)+" 0))")
		cx := st.ghostRead(st.ghost("cancels"), st.term(fv))
		st.ghostWrite(st.ghost("cancelled"), cx, "true")
		x.event(st, "cancel", cx)
		return one(st, Val{})
	}
	x.obligeAt(st, fr, "nil-func", pos, "", "(not (= "+st.term(fv)+" 0))")
	x.e.notes["call through function value of type "+typeKey(c.Value.Type())+" without contract: arbitrary result, arbitrary heap effect"] = true
	st.havocAll()
	return one(st, st.fresh("fv", c.Signature().Results()))
}

func (x *Exec) resultVal(st *State, sig *types.Signature, res []Val) Val {
	switch len(res) {
	case 0:
		return Val{Ty: sig.Results()}
	case 1:
		return res[0]
	}
	return Val{Tuple: res, Ty: sig.Results()}
}

func (x *Exec) callFunc(st *State, fr *frame, fn *ssa.Function, bindings []Val, args []Val, c *ssa.CallCommon, pos token.Pos) []callOut {
	e := x.e
	name := e.shortName(fn)
	if h, ok := e.externs[name]; ok {
		e.usedExterns[name] = true
		return h(x, st, fr, c, args, pos)
	}
	if ct := e.contracts[name]; ct != nil && !ct.Inline && (fn != x.root || x.onStack(fn) || x.inlineDepth == 0) && (len(ct.Ensures)+len(ct.Requires) > 0 || ct.Trusted) {
		return x.applyContract(st, fr, ct, fn.Signature, fn, args, pos, name)
	}
	if fn.Blocks != nil && (e.analysed(fn) || e.inlineExtern[name]) {
		maxDepth, rec := 6, false
		if ct := e.contracts[name]; ct != nil && ct.Recursion > 0 {
			maxDepth, rec = ct.Recursion, true
		}
		if x.recDepth > 0 {
			maxDepth = x.recDepth
		}
		if x.inlineDepth >= maxDepth || (x.onStack(fn) && !rec) {
			x.fail(st, "inline-depth", name)
			st.havocAll()
			return one(st, st.fresh("rec", fn.Signature.Results()))
		}
		return x.inline(st, fr, fn, bindings, args, pos)
	}
	// unmodelled external function
	if e.pureExterns[name] || e.pureExternPkg(fn) || name == "syscall.(*Timespec).Unix" {
		e.notes["extern (pure, arbitrary result): "+name] = true
		return one(st, st.fresh("ext", fn.Signature.Results()))
	}
	e.notes["call to unmodelled function "+name+" treated as modifying everything"] = true
	st.havocAll()
	return one(st, st.fresh("ext", fn.Signature.Results()))
}

func (x *Exec) onStack(fn *ssa.Function) bool {
	for _, f := range x.stack {
		if f == fn {
			return true
		}
	}
	return false
}

func (x *Exec) inline(st *State, caller *frame, fn *ssa.Function, bindings []Val, args []Val, pos token.Pos) []callOut {
	fr := x.newFrame(fn)
	for i, p := range fn.Params {
		fr.regs[p] = args[i]
	}
	for i, fv := range fn.FreeVars {
		fr.regs[fv] = bindings[i]
	}
	if ct := x.e.contracts[x.e.shortName(fn)]; ct != nil && ct.Recursion > x.recDepth {
		x.recDepth = ct.Recursion
	}
	if os.Getenv("P9VC_TRACE") != "" {
		fmt.Fprintf(os.Stderr, "%sinline %s at %s\n", strings.Repeat("  ", x.inlineDepth), x.e.shortName(fn), shortPos(x.e.fset, pos))
	}
	x.inlineDepth++
	x.stack = append(x.stack, fn)
	outs := x.runBlock(st, fr, fn.Blocks[0], 0)
	x.stack = x.stack[:len(x.stack)-1]
	x.inlineDepth--
	var res []callOut
	for _, o := range outs {
		res = append(res, callOut{st: o.st, val: x.resultVal(o.st, fn.Signature, o.res)})
	}
	return res
}

// applyContract replaces a call by assert-pre / havoc-frame / assume-post.
func (x *Exec) applyContract(st *State, fr *frame, ct *Contract, sig *types.Signature, fn *ssa.Function, args []Val, pos token.Pos, name string) []callOut {
	e := x.e
	ctx := &SpecCtx{s: st, vars: map[string]Val{}, pkg: ct.Pkg}
	if fn != nil {
		for i, p := range fn.Params {
			ctx.vars[p.Name()] = args[i]
			ctx.vars[fmt.Sprintf("arg%d", i)] = args[i]
		}
	} else {
		// interface method / func type: receiver is "self", parameters by declared names
		ctx.vars["self"] = args[0]
		ps := sig.Params()
		for i := 0; i < ps.Len(); i++ {
			n := ps.At(i).Name()
			if i < len(ct.Params) {
				n = ct.Params[i]
			}
			if n != "" && n != "_" {
				ctx.vars[n] = args[i+1]
			}
			ctx.vars[fmt.Sprintf("arg%d", i)] = args[i+1]
		}
	}
	for _, g := range ct.Groups {
		st.groups[g] = true
	}
	for i, r := range ct.Requires {
		t, err := x.evalClause(st, ctx, r)
		if err != nil {
			x.errs = append(x.errs, err.Error())
			t = "false"
		}
		x.obligeAt(st, fr, "pre", pos, shortCallee(name)+"/"+clauseName("requires", i, r), t)
		st.assume(t)
	}
	old := st.snapshot()
	// frame
	if ct.HasMod {
		ms := newModSet()
		for _, h := range ct.Modifies {
			ms.heaps[e.modName(h)] = true
		}
		st.havocSet(ms)
	} else if fn != nil && fn.Blocks != nil {
		st.havocSet(e.modset(fn, nil))
	} else {
		st.havocAll()
	}
	var res []Val
	rs := sig.Results()
	for i := 0; i < rs.Len(); i++ {
		v := st.fresh("r_"+shortCallee(name), rs.At(i).Type())
		st.assumeAllocated(rs.At(i).Type(), v.T)
		res = append(res, v)
	}
	ctx.old = old
	bindResults(ctx, sig, res)
	for _, en := range ct.Ensures {
		t, err := x.evalClause(st, ctx, en)
		if err != nil {
			x.errs = append(x.errs, err.Error())
			continue
		}
		st.assume(t)
	}
	e.usedContracts[ct.Name] = true
	return one(st, x.resultVal(st, sig, res))
}

func shortCallee(n string) string {
	if i := strings.LastIndex(n, "."); i >= 0 && !strings.Contains(n, ")") {
		return n[i+1:]
	}
	if i := strings.Index(n, "."); i >= 0 {
		return n[i+1:]
	}
	return n
}

func (x *Exec) doInvoke(st *State, fr *frame, c *ssa.CallCommon, recv Val, args []Val, pos token.Pos) []callOut {
	e := x.e
	iname := invokeName(c)
	x.obligeAt(st, fr, "nil-iface", pos, c.Method.Name(), "(not (= (i_tag "+recv.T+") 0))")
	st.assume("(not (= (i_tag " + recv.T + ") 0))")
	if h, ok := e.externs["invoke:"+iname]; ok {
		e.usedExterns["invoke:"+iname] = true
		return h(x, st, fr, c, append([]Val{recv}, args...), pos)
	}
	if recv.Dyn != nil {
		// the dynamic type is known on this path and its method is under contract: more precise than the interface contract
		if fn := e.prog.LookupMethod(recv.Dyn, c.Method.Pkg(), c.Method.Name()); fn != nil {
			if fct := e.contracts[e.shortName(fn)]; fct != nil && !fct.Inline && fn != x.root {
				var rv Val
				if recv.Payload != nil {
					rv = *recv.Payload
				} else {
					rv = Val{T: e.unbox(recv.Dyn, "(i_ref "+recv.T+")"), Ty: recv.Dyn}
				}
				return x.callFunc(st, fr, fn, nil, append([]Val{rv}, args...), c, pos)
			}
		}
	}
	if ct := e.ifaceContracts[iname]; ct != nil && !ct.Dispatch {
		return x.applyContract(st, fr, ct, c.Signature(), nil, append([]Val{recv}, args...), pos, iname)
	}
	if recv.Dyn != nil {
		if fn := e.prog.LookupMethod(recv.Dyn, c.Method.Pkg(), c.Method.Name()); fn != nil {
			var rv Val
			if recv.Payload != nil {
				rv = *recv.Payload
			} else {
				rv = Val{T: e.unbox(recv.Dyn, "(i_ref "+recv.T+")"), Ty: recv.Dyn}
			}
			return x.callFunc(st, fr, fn, nil, append([]Val{rv}, args...), c, pos)
		}
	}
	// dispatch over the implementations known in the analysed packages
	if impls := e.implementors(c); len(impls) > 0 && len(impls) <= 4 {
		var outs []callOut
		var conds []string
		for _, t := range impls {
			cond := fmt.Sprintf("(= (i_tag %s) %d)", recv.T, e.typeTag(t))
			conds = append(conds, cond)
			s2, f2 := st.clone(), fr
			s2.assumePC(cond)
			if !x.feasible(s2) {
				continue
			}
			fn := e.prog.LookupMethod(t, c.Method.Pkg(), c.Method.Name())
			rv := Val{T: e.unbox(t, "(i_ref "+recv.T+")"), Ty: t}
			s2.assume(e.typeInv(t, rv.T))
			outs = append(outs, x.callFunc(s2, f2, fn, nil, append([]Val{rv}, args...), c, pos)...)
		}
		// and a dynamic type from outside
		st.assumePC(not(or(conds...)))
		if !x.feasible(st) {
			return outs
		}
		if ct := e.ifaceContracts[iname]; ct != nil {
			return append(outs, x.applyContract(st, fr, ct, c.Signature(), nil, append([]Val{recv}, args...), pos, iname)...)
		}
		e.notes["interface call "+iname+" on a dynamic type outside the analysed packages: arbitrary result, arbitrary heap effect"] = true
		st.havocAll()
		outs = append(outs, callOut{st: st, val: st.fresh("dyn", c.Signature().Results())})
		return outs
	}
	e.notes["interface call "+iname+" without contract: arbitrary result, arbitrary heap effect"] = true
	st.havocAll()
	return one(st, st.fresh("inv", c.Signature().Results()))
}

func (e *Engine) implementors(c *ssa.CallCommon) []types.Type {
	it, ok := c.Value.Type().Underlying().(*types.Interface)
	if !ok {
		return nil
	}
	e.collectTypes()
	var res []types.Type
	for _, t := range e.tagTypes {
		if types.Implements(t, it) {
			if fn := e.prog.LookupMethod(t, c.Method.Pkg(), c.Method.Name()); fn != nil && fn.Blocks != nil && (e.analysed(fn) || fn.Synthetic != "") {
				res = append(res, t)
			}
		}
	}
	return res
}

// collectTypes registers every named type (and its pointer type) of the analysed packages as a known dynamic type.
func (e *Engine) collectTypes() {
	if e.typesCollected {
		return
	}
	e.typesCollected = true
	for _, p := range e.mainPkg {
		var names []string
		for n := range p.Members {
			names = append(names, n)
		}
		sort.Strings(names)
		for _, n := range names {
			if t, ok := p.Members[n].(*ssa.Type); ok {
				if _, isI := t.Type().Underlying().(*types.Interface); isI {
					continue
				}
				e.typeTag(t.Type())
				e.typeTag(types.NewPointer(t.Type()))
			}
		}
	}
	for _, b := range []types.BasicKind{types.Bool, types.Int, types.Int8, types.Int16, types.Int32, types.Int64, types.Uint, types.Uint8, types.Uint16, types.Uint32, types.Uint64, types.String} {
		e.typeTag(types.Typ[b])
		e.typeTag(types.NewPointer(types.Typ[b]))
	}
}

// ---------------------------------------------------------------- defers

type deferOut struct {
	st *State
	fr *frame
}

func (x *Exec) runDefers(st *State, fr *frame) []deferOut {
	if len(fr.defers) == 0 {
		return []deferOut{{st, fr}}
	}
	d := fr.defers[len(fr.defers)-1]
	fr.defers = fr.defers[:len(fr.defers)-1]
	var outs []callOut
	c := d.call
	switch {
	case c.IsInvoke():
		outs = x.doInvoke(st, fr, c, d.fn, d.args, d.pos)
	default:
		if b, ok := c.Value.(*ssa.Builtin); ok {
			outs = x.builtin(st, fr, b, c, d.args, d.pos)
		} else if fn := c.StaticCallee(); fn != nil {
			var bindings []Val
			if d.fn.Clo != nil {
				bindings = d.fn.Clo.Bindings
			}
			outs = x.callFunc(st, fr, fn, bindings, d.args, c, d.pos)
		} else if d.fn.Clo != nil {
			outs = x.callFunc(st, fr, d.fn.Clo.Fn, d.fn.Clo.Bindings, d.args, c, d.pos)
		} else {
			outs = x.callFuncValue(st, fr, d.fn, d.args, c, d.pos)
		}
	}
	var res []deferOut
	for k, o := range outs {
		f2 := fr
		if k < len(outs)-1 {
			f2 = fr.clone()
		}
		res = append(res, x.runDefers(o.st, f2)...)
	}
	return res
}

// ---------------------------------------------------------------- builtins

func (x *Exec) builtin(st *State, fr *frame, b *ssa.Builtin, c *ssa.CallCommon, args []Val, pos token.Pos) []callOut {
	e := x.e
	switch b.Name() {
	case "len":
		v := args[0]
		switch v.Ty.Underlying().(type) {
		case *types.Slice:
			if v.HasArr {
				return one(st, Val{T: fmt.Sprint(v.ArrLen), Ty: types.Typ[types.Int]})
			}
			return one(st, Val{T: "(s_len " + v.T + ")", Ty: types.Typ[types.Int]})
		case *types.Map:
			return one(st, Val{T: ite("(= "+v.T+" 0)", "0", st.mapLen(v.Ty, v.T)), Ty: types.Typ[types.Int]})
		case *types.Chan:
			return one(st, st.fresh("chanlen", types.Typ[types.Int]))
		}
		if isStringTy(v.Ty) {
			return one(st, Val{T: "(slen " + v.T + ")", Ty: types.Typ[types.Int]})
		}
	case "cap":
		v := args[0]
		if _, ok := v.Ty.Underlying().(*types.Slice); ok {
			return one(st, Val{T: "(s_cap " + v.T + ")", Ty: types.Typ[types.Int]})
		}
	case "ssa:deferstack":
		return one(st, Val{T: "0", Ty: c.Signature().Results().At(0).Type()})
	case "ssa:wrapnilchk":
		return one(st, args[0])
	case "delete":
		m, k := args[0], args[1]
		st.mapDelete(m.Ty, m.T, st.term(k))
		return one(st, Val{})
	case "close":
		x.chanClose(st, fr, args[0], pos)
		return one(st, Val{})
	case "append":
		return x.doAppend(st, fr, c, args, pos)
	case "copy":
		return x.doCopy(st, fr, c, args, pos)
	case "print", "println":
		return one(st, Val{})
	case "recover":
		return one(st, Val{T: "(mk_iface 0 0)", Ty: c.Signature().Results().At(0).Type()})
	case "min", "max":
		if len(args) == 2 {
			op := "<="
			if b.Name() == "max" {
				op = ">="
			}
			return one(st, Val{T: "(ite (" + op + " " + args[0].T + " " + args[1].T + ") " + args[0].T + " " + args[1].T + ")", Ty: args[0].Ty})
		}
	}
	_ = e
	x.fail(st, "builtin", b.Name())
	return nil
}

func (x *Exec) doAppend(st *State, fr *frame, c *ssa.CallCommon, args []Val, pos token.Pos) []callOut {
	e := x.e
	s, t := args[0], args[1]
	sl := s.Ty.Underlying().(*types.Slice)
	et := sl.Elem()
	var tlen, tbase, toff string
	bytesFromStr := false
	if isStringTy(t.Ty) {
		tlen = "(slen " + t.T + ")"
		bytesFromStr = true
	} else {
		tlen, tbase, toff = "(s_len "+t.T+")", "(s_base "+t.T+")", "(s_off "+t.T+")"
	}
	n := st.name("apn", "Int", "(+ (s_len "+s.T+") "+tlen+")")
	id, sort, h := st.elemHeap(et)
	// result: either in place or reallocated; model both with a fresh slice header and a fresh element heap
	r := st.freshSort("apr", "Slice")
	newLoc := st.newLoc("apb")
	inPlace := "(and (<= " + n + " (s_cap " + s.T + ")) (not (= (s_base " + s.T + ") 0)))"
	// Go keeps the original when nothing is appended
	st.assume("(= (s_len " + r + ") " + n + ")")
	st.assume("(>= (s_cap " + r + ") " + n + ")")
	st.assume(ite(inPlace,
		and("(= (s_base "+r+") (s_base "+s.T+"))", "(= (s_off "+r+") (s_off "+s.T+"))", "(= (s_cap "+r+") (s_cap "+s.T+"))"),
		ite("(= "+tlen+" 0)", and("(= (s_base "+r+") (s_base "+s.T+"))", "(= (s_off "+r+") (s_off "+s.T+"))", "(= (s_cap "+r+") (s_cap "+s.T+"))"),
			and("(= (s_base "+r+") "+newLoc+")", "(= (s_off "+r+") 0)"))))
	h2 := st.e.freshName("H_" + sanitize(id))
	st.declare(h2, sort)
	rb, ro := "(s_base "+r+")", "(s_off "+r+")"
	// other backing arrays untouched
	st.assume("(forall ((b Int)) (! (=> (not (= b " + rb + ")) (= (select " + h2 + " b) (select " + h + " b))) :pattern ((select " + h2 + " b))))")
	// prefix preserved / appended part copied (absolute index k so that any index term matches the pattern)
	slen0 := "(s_len " + s.T + ")"
	st.assume("(forall ((k Int)) (! (=> (and (<= " + ro + " k) (< k (+ " + ro + " " + slen0 + "))) (= (select (select " + h2 + " " + rb + ") k) (select (select " + h + " (s_base " + s.T + ")) (+ (s_off " + s.T + ") (- k " + ro + "))))) :pattern ((select (select " + h2 + " " + rb + ") k))))")
	if !bytesFromStr {
		st.assume("(forall ((k Int)) (! (=> (and (<= (+ " + ro + " " + slen0 + ") k) (< k (+ " + ro + " " + n + "))) (= (select (select " + h2 + " " + rb + ") k) (select (select " + h + " " + tbase + ") (+ " + toff + " (- k (+ " + ro + " " + slen0 + ")))))) :pattern ((select (select " + h2 + " " + rb + ") k))))")
	}
	// in place: cells outside the appended range keep their value
	st.assume(implies(inPlace, "(forall ((k Int)) (! (=> (or (< k (+ "+ro+" (s_len "+s.T+"))) (>= k (+ "+ro+" "+n+"))) (= (select (select "+h2+" "+rb+") k) (select (select "+h+" "+rb+") k))) :pattern ((select (select "+h2+" "+rb+") k))))"))
	if isByteSlice(s.Ty) {
		// the same facts at the level of byte strings: the result's content is the old content followed by the appended bytes
		e.needWin()
		st.groups["bytes"] = true
		oldW := "(win (select " + h + " (s_base " + s.T + ")) (s_off " + s.T + ") " + slen0 + ")"
		var srcW string
		if bytesFromStr {
			srcW = "(sbytes " + t.T + ")"
		} else {
			srcW = "(win (select " + h + " " + tbase + ") " + toff + " " + tlen + ")"
		}
		st.assume("(= (win (select " + h2 + " " + rb + ") " + ro + " " + n + ") (bcat " + oldW + " " + srcW + "))")
	}
	st.heapTerm(id, sort)
	st.heap[id] = h2
	_ = e
	rv := Val{T: r, Ty: s.Ty}
	st.assume(e.typeInv(s.Ty, r))
	return one(st, rv)
}

func (x *Exec) doCopy(st *State, fr *frame, c *ssa.CallCommon, args []Val, pos token.Pos) []callOut {
	d, s := args[0], args[1]
	dl := d.Ty.Underlying().(*types.Slice)
	et := dl.Elem()
	var slen string
	fromStr := isStringTy(s.Ty)
	if fromStr {
		slen = "(slen " + s.T + ")"
	} else {
		slen = "(s_len " + s.T + ")"
	}
	n := st.freshSort("cpn", "Int")
	st.assume(eq(n, "(ite (<= (s_len "+d.T+") "+slen+") (s_len "+d.T+") "+slen+")"))
	id, sort, h := st.elemHeap(et)
	h2 := st.e.freshName("H_" + sanitize(id))
	st.declare(h2, sort)
	db, do := "(s_base "+d.T+")", "(s_off "+d.T+")"
	st.assume("(forall ((b Int)) (! (=> (not (= b " + db + ")) (= (select " + h2 + " b) (select " + h + " b))) :pattern ((select " + h2 + " b))))")
	if !fromStr {
		st.assume("(forall ((k Int)) (! (=> (and (<= " + do + " k) (< k (+ " + do + " " + n + "))) (= (select (select " + h2 + " " + db + ") k) (select (select " + h + " (s_base " + s.T + ")) (+ (s_off " + s.T + ") (- k " + do + "))))) :pattern ((select (select " + h2 + " " + db + ") k))))")
	}
	st.assume("(forall ((k Int)) (! (=> (or (< k " + do + ") (>= k (+ " + do + " " + n + "))) (= (select (select " + h2 + " " + db + ") k) (select (select " + h + " " + db + ") k))) :pattern ((select (select " + h2 + " " + db + ") k))))")
	st.heapTerm(id, sort)
	st.heap[id] = h2
	return one(st, Val{T: n, Ty: types.Typ[types.Int]})
}

// ---------------------------------------------------------------- encoded addresses / closures

// encodeAddr turns a structurally known address into a location term. Local cells are promoted to heap objects.
func (e *Engine) encodeAddr(s *State, a *Addr) string {
	if a.Kind == ALocal && len(a.Path) == 0 {
		if l := s.promoted[a.Cell]; l != "" {
			return l
		}
		loc := s.newLoc("esc")
		ty := s.cellTy[a.Cell]
		cv := s.cells[a.Cell]
		s.assume(e.typeInv(types.NewPointer(ty), loc))
		for _, gn := range e.zeroGhosts() {
			g := e.ghosts[gn]
			s.assume(eq(s.ghostRead(g, loc), e.zero(g.Ty)))
		}
		if typeKey(ty) == "bytes.Buffer" {
			// the zero value of bytes.Buffer is an empty buffer
			e.needBytes()
			s.groups["bytes"] = true
			s.ghostWrite(s.ghost("out"), loc, "bempty")
		}
		// mutexes of a newly allocated object are not held
		if st, ok := ty.Underlying().(*types.Struct); ok {
			for i := 0; i < st.NumFields(); i++ {
				if typeKey(st.Field(i).Type()) == "sync.Mutex" {
					e.needFaddr()
					s.assume(not(s.ghostRead(s.ghost("held"), fmt.Sprintf("(faddr %s %d)", loc, i))))
				}
				if typeKey(st.Field(i).Type()) == "sync.Once" {
					e.needFaddr()
					s.assume(not(s.ghostRead(s.ghost("oncedone"), fmt.Sprintf("(faddr %s %d)", loc, i))))
				}
			}
		}
		s.setPromoted(a.Cell, loc)
		obj := &Addr{Kind: AObj, Loc: loc, RootTy: ty}
		if cv.T != "" || cv.Addr != nil || cv.Clo != nil {
			s.store(obj, cv)
		}
		return loc
	}
	if a.Kind == AElem && len(a.Path) == 0 && e.eptrDone {
		// pointer to a slice element as a term (so that it survives a trip through the heap and can be described in invariants)
		loc := s.name("eptr", "Int", "(eptr "+a.Base+" "+a.Idx+")")
		s.assume("(> " + loc + " 0)")
		s.addEncoded(loc, a)
		return loc
	}
	// interior pointers: opaque location remembered per path
	loc := s.freshSort("iptr", "Int")
	s.assume("(> " + loc + " 0)")
	s.addEncoded(loc, a)
	return loc
}

func (s *State) setPromoted(cell int, loc string) {
	n := make(map[int]string, len(s.promoted)+1)
	for k, v := range s.promoted {
		n[k] = v
	}
	n[cell] = loc
	s.promoted = n
}

func (s *State) addEncoded(loc string, a *Addr) {
	n := make(map[string]*Addr, len(s.encoded)+1)
	for k, v := range s.encoded {
		n[k] = v
	}
	n[loc] = a
	s.encoded = n
}

func (s *State) resolveEncoded(t string) *Addr {
	if a, ok := s.encoded[t]; ok {
		return a
	}
	return nil
}

func (e *Engine) encodeClosure(s *State, c *Closure) string {
	loc := s.freshSort("clo", "Int")
	s.assume("(> " + loc + " 0)")
	n := make(map[string]*Closure, len(s.closures)+1)
	for k, v := range s.closures {
		n[k] = v
	}
	n[loc] = c
	s.closures = n
	return loc
}

func (s *State) resolveClosure(t string) *Closure {
	if c, ok := s.closures[t]; ok {
		return c
	}
	return nil
}

func (e *Engine) needStrSub() {
	e.d.add("str_sub", "(declare-fun str_sub (Str Int Int) Str)")
	if !e.strSubDone {
		e.strSubDone = true
		e.d.addAxiom("core", "str_sub_len", "(forall ((s Str) (a Int) (b Int)) (! (=> (and (<= 0 a) (<= a b) (<= b (slen s))) (= (slen (str_sub s a b)) (- b a))) :pattern ((str_sub s a b))))")
	}
}

func (e *Engine) needWin() {
	if e.winDone {
		return
	}
	e.winDone = true
	e.needBytes()
	e.d.add("win", "(declare-fun win ((Array Int Int) Int Int) Bytes)\n(declare-fun bat (Bytes Int) Int)")
	ax := func(n, t string) { e.d.addAxiom("bytes", n, t) }
	ax("win_len", "(forall ((a (Array Int Int)) (o Int) (n Int)) (! (=> (<= 0 n) (= (blen (win a o n)) n)) :pattern ((win a o n))))")
	ax("win_at", "(forall ((a (Array Int Int)) (o Int) (n Int) (i Int)) (! (=> (and (<= 0 i) (< i n)) (= (bat (win a o n) i) (select a (+ o i)))) :pattern ((bat (win a o n) i))))")
	ax("win_split", "(forall ((a (Array Int Int)) (o Int) (n Int) (k Int)) (! (=> (and (<= 0 k) (<= k n)) (= (btake (win a o n) k) (win a o k))) :pattern ((btake (win a o n) k))))")
	// two arrays that agree on a window have the same window contents (opt-in: `use winframe`)
	e.d.addAxiom("winframe", "win_frame", "(forall ((a (Array Int Int)) (b (Array Int Int)) (o Int) (n Int)) (! (=> (forall ((i Int)) (=> (and (<= o i) (< i (+ o n))) (= (select a i) (select b i)))) (= (win a o n) (win b o n))) :pattern ((win a o n) (win b o n))))")
	ax("win_drop", "(forall ((a (Array Int Int)) (o Int) (n Int) (k Int)) (! (=> (and (<= 0 k) (<= k n)) (= (bdrop (win a o n) k) (win a (+ o k) (- n k)))) :pattern ((bdrop (win a o n) k))))")
}

// singleClosure resolves a call value that is a load of a local variable assigned exactly once with a closure.
func singleClosure(v ssa.Value) *ssa.MakeClosure {
	u, ok := v.(*ssa.UnOp)
	if !ok {
		return nil
	}
	al, ok := u.X.(*ssa.Alloc)
	if !ok {
		return nil
	}
	var mc *ssa.MakeClosure
	n := 0
	for _, r := range *al.Referrers() {
		if s, ok := r.(*ssa.Store); ok && s.Addr == al {
			n++
			mc, _ = s.Val.(*ssa.MakeClosure)
		}
	}
	if n == 1 {
		return mc
	}
	return nil
}

// closureRunsHere: the closure value is called, deferred or handed to a callee as an argument (possibly via a local variable).
func closureRunsHere(mc *ssa.MakeClosure) bool {
	var uses func(v ssa.Value, depth int) bool
	uses = func(v ssa.Value, depth int) bool {
		if v.Referrers() == nil || depth > 3 {
			return true
		}
		for _, r := range *v.Referrers() {
			switch r := r.(type) {
			case *ssa.Call:
				return true
			case *ssa.Defer:
				return true
			case *ssa.Go:
				// runs in another goroutine: thread-modular
			case *ssa.Store:
				if al, ok := r.Addr.(*ssa.Alloc); ok && r.Val == v {
					// stored in a local: look at loads of that local
					for _, r2 := range *al.Referrers() {
						if u, ok := r2.(*ssa.UnOp); ok {
							if uses(u, depth+1) {
								return true
							}
						}
					}
				}
				// stored into a field / heap: runs elsewhere
			case *ssa.MakeInterface, *ssa.ChangeType:
				if uses(r.(ssa.Value), depth+1) {
					return true
				}
			case *ssa.Return:
				// returned: runs in the caller
			case *ssa.DebugRef:
			default:
				_ = r
			}
		}
		return false
	}
	return uses(mc, 0)
}

func (e *Engine) zeroGhosts() []string {
	var ns []string
	for n, g := range e.ghosts {
		if g.Zero {
			ns = append(ns, n)
		}
	}
	sort.Strings(ns)
	return ns
}

// hookMods: ghost ledgers assigned by the function's `at ... set` hooks belong to its frame.
func (e *Engine) hookMods(fn *ssa.Function, ms *ModSet) {
	if ct := e.contracts[e.shortName(fn)]; ct != nil {
		for _, h := range ct.Ats {
			if h.Kind == "set" || h.Kind == "pre" {
				ms.heaps["gh:"+h.Ghost] = true
			}
		}
	}
}
