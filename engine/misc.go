package main

import (
	"go/types"
	"strings"
)

// lemmaObligations: lemmas tagged (by name prefix "<ID>_") with a property are proved from the axioms.
func (e *Engine) lemmaObligations(id string) []*Obligation {
	var res []*Obligation
	for _, a := range e.axiomDecls {
		if !a.Lemma || !hasProp(a.Props, id) || a.ByFunc != "" {
			continue
		}
		o := &Obligation{Name: "lemma/" + a.Name, Func: "lemma", Kind: "lemma", Goal: a.term, Props: a.Props, Groups: map[string]bool{a.Group: true}, MinTimeout: 60}
		if len(a.From) > 0 {
			o.Groups = map[string]bool{}
			for _, g := range a.From {
				if g == a.Group {
					panic("lemma " + a.Name + " would be proved from its own group")
				}
				o.Groups[g] = true
			}
		}
		res = append(res, o)
	}
	return res
}

// structuralObligations: progress conditions matched on the SSA, not solver-discharged (labelled structural in the evidence).
// C11/C12: every blocking channel operation of the connection loops is a select that also waits on the connection's
// "closed" channel and on a context's Done() channel, so that shutdown can always interrupt it.
func (e *Engine) structuralObligations(id string, reps []*FuncReport) []*Obligation {
	var want map[string]bool
	switch id {
	case "C11":
		want = map[string]bool{"p9p.(*conn).serve": true, "p9p.(*conn).read": true, "p9p.(*conn).write": true, "p9p.(*conn).serve$2": true}
	case "C12":
		want = map[string]bool{"p9p.(*transport).send": true, "p9p.(*transport).handle$2": true}
	default:
		return nil
	}
	var res []*Obligation
	for _, r := range reps {
		for _, b := range r.Blocking {
			if !want[b.Func] {
				continue
			}
			hasClosed, hasDone := false, false
			for _, a := range b.Alts {
				if strings.Contains(a, "closed") {
					hasClosed = true
				}
				if strings.HasSuffix(a, "Done()") {
					hasDone = true
				}
			}
			o := &Obligation{Name: b.Func + "/progress@" + b.What + "[" + strings.Join(b.Alts, ",") + "]", Func: b.Func, Kind: "progress", Pos: b.Pos, Props: []string{id}, Structural: true}
			if hasClosed && hasDone {
				o.Status = "discharged"
				o.Solver = "structural"
			} else {
				o.Status = "failed"
				o.Output = "blocking operation at " + b.Pos + " does not also wait on the closed channel and a context's Done(): shutdown cannot interrupt it"
			}
			res = append(res, o)
			e.structCount++
		}
	}
	return res
}

func (e *Engine) tryReplay(id string, o *Obligation, replayPath string) bool { return false }

func (e *Engine) debugModset(name string) {
	fn := e.funcs[name]
	if fn == nil {
		println("no such function")
		return
	}
	ms := e.modset(fn, nil)
	println("all:", ms.all, "interior:", ms.interior)
	for h := range ms.heaps {
		println("  ", h)
	}
}

// heapSortFromID derives the SMT sort of a heap from its id, so that heaps named in contracts
// (modifies / unchanged / preserved) can be declared before the code touches them.
func (e *Engine) heapSortFromID(id string) string {
	if s := e.heapSorts[id]; s != "" {
		return s
	}
	var pkg *types.Package
	for _, p := range e.mainPkg {
		if p.Pkg.Name() == "p9p" {
			pkg = p.Pkg
		}
	}
	resolve := func(ts string) (string, bool) {
		for _, p := range e.mainPkg {
			if t, err := e.resolveType(p.Pkg, ts); err == nil {
				return e.sortOf(t), true
			}
		}
		_ = pkg
		return "", false
	}
	so := ""
	switch {
	case id == allocHeap:
		so = "(Array Int Bool)"
	case id == "gh:$iofail", id == lockCount, id == "gh:$spawned", id == "gh:$dynalloc":
		so = "Int"
	case id == "gh:$visited":
		so = "(Array Iface Bool)"
	case id == "gh:$smhas":
		so = "(Array Int (Array Iface Bool))"
	case id == "gh:$smval":
		so = "(Array Int (Array Iface Iface))"
	case strings.HasPrefix(id, "gh:"):
		if g, ok := e.ghosts[id[3:]]; ok {
			so = "(Array Int " + e.sortOf(g.Ty) + ")"
		}
	case strings.HasPrefix(id, "E:"):
		if s, ok := resolve(id[2:]); ok {
			so = "(Array Int (Array Int " + s + "))"
		}
	case strings.HasPrefix(id, "P:"):
		if s, ok := resolve(id[2:]); ok {
			so = "(Array Int " + s + ")"
		}
	case strings.HasPrefix(id, "F:"):
		// F:pkg.Struct.field
		rest := id[2:]
		i := strings.LastIndex(rest, ".")
		if i > 0 {
			for _, p := range e.mainPkg {
				if t, err := e.resolveType(p.Pkg, rest[:i]); err == nil && isStruct(t) {
					si := e.structInfo(t)
					if k := si.fieldIndex(rest[i+1:]); k >= 0 && fieldHeapID(si, k) == id {
						so = "(Array Int " + si.FSort[k] + ")"
					}
				}
			}
		}
	}
	if so != "" {
		e.heapSorts[id] = so
	}
	return so
}
