package main

// lemmaObligations: lemmas tagged (by name prefix "<ID>_") with a property are proved from the axioms.
func (e *Engine) lemmaObligations(id string) []*Obligation {
	var res []*Obligation
	for _, a := range e.axiomDecls {
		if !a.Lemma || !hasProp(a.Props, id) {
			continue
		}
		o := &Obligation{Name: "lemma/" + a.Name, Func: "lemma", Kind: "lemma", Goal: a.term, Props: a.Props, Groups: map[string]bool{a.Group: true}}
		res = append(res, o)
	}
	return res
}

func (e *Engine) structuralObligations(id string, reps []*FuncReport) []*Obligation { return nil }

func (e *Engine) tryReplay(id string, o *Obligation, replayPath string) bool { return false }
