package main

import (
	"go/types"
	"strings"
)

// lemmaObligations: lemmas tagged (by name prefix "<ID>_") with a property are proved from the axioms.
func (e *Engine) lemmaObligations(id string) []*Obligation {
	var res []*Obligation
	for _, a := range e.axiomDecls {
		if !a.Lemma || !hasProp(a.Props, id) {
			continue
		}
		o := &Obligation{Name: "lemma/" + a.Name, Func: "lemma", Kind: "lemma", Goal: a.term, Props: a.Props, Groups: map[string]bool{a.Group: true}}
		res = append(res, o)
	}
	return res
}

func (e *Engine) structuralObligations(id string, reps []*FuncReport) []*Obligation { return nil }

func (e *Engine) tryReplay(id string, o *Obligation, replayPath string) bool { return false }

func (e *Engine) debugModset(name string) {
	fn := e.funcs[name]
	if fn == nil {
		println("no such function")
		return
	}
	ms := e.modset(fn, nil)
	println("all:", ms.all, "interior:", ms.interior)
	for h := range ms.heaps {
		println("  ", h)
	}
}

// heapSortFromID derives the SMT sort of a heap from its id, so that heaps named in contracts
// (modifies / unchanged / preserved) can be declared before the code touches them.
func (e *Engine) heapSortFromID(id string) string {
	if s := e.heapSorts[id]; s != "" {
		return s
	}
	var pkg *types.Package
	for _, p := range e.mainPkg {
		if p.Pkg.Name() == "p9p" {
			pkg = p.Pkg
		}
	}
	resolve := func(ts string) (string, bool) {
		for _, p := range e.mainPkg {
			if t, err := e.resolveType(p.Pkg, ts); err == nil {
				return e.sortOf(t), true
			}
		}
		_ = pkg
		return "", false
	}
	so := ""
	switch {
	case id == allocHeap:
		so = "(Array Int Bool)"
	case id == "gh:$iofail", id == lockCount:
		so = "Int"
	case id == "gh:$visited":
		so = "(Array Iface Bool)"
	case id == "gh:$smhas":
		so = "(Array Int (Array Iface Bool))"
	case id == "gh:$smval":
		so = "(Array Int (Array Iface Iface))"
	case strings.HasPrefix(id, "gh:"):
		if g, ok := e.ghosts[id[3:]]; ok {
			so = "(Array Int " + e.sortOf(g.Ty) + ")"
		}
	case strings.HasPrefix(id, "E:"):
		if s, ok := resolve(id[2:]); ok {
			so = "(Array Int (Array Int " + s + "))"
		}
	case strings.HasPrefix(id, "P:"):
		if s, ok := resolve(id[2:]); ok {
			so = "(Array Int " + s + ")"
		}
	case strings.HasPrefix(id, "F:"):
		// F:pkg.Struct.field
		rest := id[2:]
		i := strings.LastIndex(rest, ".")
		if i > 0 {
			for _, p := range e.mainPkg {
				if t, err := e.resolveType(p.Pkg, rest[:i]); err == nil && isStruct(t) {
					si := e.structInfo(t)
					if k := si.fieldIndex(rest[i+1:]); k >= 0 && fieldHeapID(si, k) == id {
						so = "(Array Int " + si.FSort[k] + ")"
					}
				}
			}
		}
	}
	if so != "" {
		e.heapSorts[id] = so
	}
	return so
}
