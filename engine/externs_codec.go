package main

// Library functions the codec (encoding.go) is built on: reflection over message structs (fields9p), bytes.Buffer /
// bytes.Reader as in-memory writer and reader, the reflect calls of decode(*Fcall), time <-> seconds.

import (
	"fmt"
	"go/token"
	"go/types"

	"golang.org/x/tools/go/ssa"
)

func isDynOf(v Val, key string) bool { return v.Dyn != nil && typeKey(v.Dyn) == key }

// dynIs: is the dynamic type of v the type named key? Known structurally, or - in verifications that decide symbolic type
// tests by refutation - implied by the path condition (e.g. stated by a loop invariant after the structure was havocked).
func (x *Exec) dynIs(st *State, v Val, key string) bool {
	if v.Dyn != nil {
		return typeKey(v.Dyn) == key
	}
	if x.c == nil || !(x.prune || x.c.ElemPtrs) || v.T == "" {
		return false
	}
	for _, t := range x.e.tagTypes {
		if typeKey(t) == key {
			_, implied := x.refuteEither(st, fmt.Sprintf("(= (i_tag %s) %d)", v.T, x.e.typeTag(t)))
			return implied
		}
	}
	return false
}

// ifaceOf boxes a structurally known value into an interface value.
func (x *Exec) ifaceOf(st *State, v Val, it types.Type) Val {
	pv := v
	return Val{T: st.name("ifc", "Iface", x.e.mkIface(v.Ty, st.term(v))), Ty: it, Dyn: v.Ty, Payload: &pv}
}

func emptyIface() types.Type { return types.NewInterfaceType(nil, nil) }

func (e *Engine) registerCodecExterns(reg regFn) {
	errT := types.Universe.Lookup("error").Type()
	intT := types.Typ[types.Int]

	reg("p9p.fields9p", "fields9p(v) (reflection, not analysed): for a struct or pointer to struct: the exported fields in declaration order, as pointers to the fields when v is a pointer and as copies of the field values otherwise, nil error; for a nil pointer: an error",
		func(x *Exec, st *State, fr *frame, c *ssa.CallCommon, args []Val, pos token.Pos) []callOut {
			v := args[0]
			rs := c.Signature().Results()
			slT := rs.At(0).Type()
			elT := slT.Underlying().(*types.Slice).Elem()
			if v.Dyn == nil || v.Payload == nil {
				x.fail(st, "fields9p", "dynamic type of the argument not known on this path")
				return nil
			}
			t := v.Dyn
			ptr := false
			if p, ok := t.Underlying().(*types.Pointer); ok {
				t, ptr = p.Elem(), true
			}
			stt, ok := t.Underlying().(*types.Struct)
			if !ok {
				ev := st.fresh("fields9p_err", errT)
				st.assume("(> (i_tag " + ev.T + ") " + fmt.Sprint(maxKnownTag) + ")")
				return one(st, Val{Tuple: []Val{{T: "(mk_slice 0 0 0 0)", Ty: slT, HasArr: true}, ev}, Ty: rs})
			}
			var outs []callOut
			pv := *v.Payload
			var base *Addr
			if ptr {
				if pv.Addr == nil {
					s2 := st.clone()
					s2.assumePC("(= " + pv.T + " 0)")
					ev := s2.fresh("fields9p_err", errT)
					s2.assume("(> (i_tag " + ev.T + ") " + fmt.Sprint(maxKnownTag) + ")")
					outs = append(outs, callOut{st: s2, val: Val{Tuple: []Val{{T: "(mk_slice 0 0 0 0)", Ty: slT, HasArr: true}, ev}, Ty: rs}})
					st.assumePC("(not (= " + pv.T + " 0))")
				}
				base = x.addrOf(st, fr, pv, pos, "fields9p")
			}
			var els []Val
			for i := 0; i < stt.NumFields(); i++ {
				f := stt.Field(i)
				if !f.Exported() {
					continue
				}
				var fv Val
				if ptr {
					fv = Val{Ty: types.NewPointer(f.Type()), Addr: base.withField(i)}
				} else if sv, ok := pv.Sub[i]; ok {
					fv = sv
					fv.Ty = f.Type()
				} else {
					tt, ty := st.project(pv.T, t, []int{i})
					fv = Val{T: tt, Ty: ty}
				}
				if _, isI := f.Type().Underlying().(*types.Interface); isI && !ptr {
					// an interface-typed field read through reflection yields its dynamic value
					fv.Ty = elT
					els = append(els, fv)
					continue
				}
				els = append(els, x.ifaceOf(st, fv, elT))
			}
			loc := st.newLoc("flds")
			for i, el := range els {
				st.store(&Addr{Kind: AElem, Base: loc, Idx: fmt.Sprint(i), RootTy: elT}, el)
			}
			n := len(els)
			sl := Val{T: st.name("sl", "Slice", fmt.Sprintf("(mk_slice %s 0 %d %d)", loc, n, n)), Ty: slT, HasArr: true, ArrBase: loc, ArrLen: n}
			return append([]callOut{{st: st, val: Val{Tuple: []Val{sl, nilError(errT)}, Ty: rs}}}, outs...)
		}, "alloc", "E:interface{}")

	reg("io.WriteString", "io.WriteString(w, s): appends the bytes of s to the writer's output and returns (len(s), nil); a writer other than *bytes.Buffer may instead fail having written a prefix",
		func(x *Exec, st *State, fr *frame, c *ssa.CallCommon, args []Val, pos token.Pos) []callOut {
			x.e.needBytes()
			st.groups["bytes"] = true
			w, s := args[0], args[1]
			g := st.ghost("out")
			ref := refOf(st, w)
			O := st.name("O", "Bytes", st.ghostRead(g, ref))
			var outs []callOut
			if !x.dynIs(st, w, "*bytes.Buffer") {
				s2 := st.clone()
				s2.note("WriteString fails")
				k := s2.freshSort("k", "Int")
				s2.assume(and("(<= 0 "+k+")", "(<= "+k+" (slen "+s.T+"))"))
				s2.ghostWrite(g, ref, "(bcat "+O+" (btake (sbytes "+s.T+") "+k+"))")
				x.event(s2, "write-fail")
				outs = append(outs, callOut{st: s2, val: Val{Tuple: []Val{{T: k, Ty: intT}, anyError(s2, errT)}}})
			}
			st.ghostWrite(g, ref, "(bcat "+O+" (sbytes "+s.T+"))")
			x.event(st, "write", "(sbytes "+s.T+")")
			return append([]callOut{{st: st, val: Val{Tuple: []Val{{T: "(slen " + s.T + ")", Ty: intT}, nilError(errT)}}}}, outs...)
		}, "gh:out", "gh:$iofail")

	reg("bytes.(*Buffer).Bytes", "(*bytes.Buffer).Bytes(): a slice holding exactly the bytes written to the buffer so far",
		func(x *Exec, st *State, fr *frame, c *ssa.CallCommon, args []Val, pos token.Pos) []callOut {
			x.e.needBytes()
			st.groups["bytes"] = true
			ref := st.term(args[0])
			O := st.name("O", "Bytes", st.ghostRead(st.ghost("out"), ref))
			slT := c.Signature().Results().At(0).Type()
			// an empty buffer returns a zero-length slice (of an unspecified, possibly nil base)
			loc := st.newLoc("buf")
			r := st.fresh("bufbytes", slT)
			st.assume("(= (s_len " + r.T + ") (blen " + O + "))")
			st.assume(eq(st.window(r.T), O))
			st.assume(or("(= (s_base "+r.T+") "+loc+")", and("(= (s_base "+r.T+") 0)", "(= (blen "+O+") 0)")))
			return one(st, r)
		})

	reg("bytes.NewReader", "bytes.NewReader(b): a reader whose remaining input is exactly the content of b (the codec does not write to b while the reader is in use: assumed)",
		func(x *Exec, st *State, fr *frame, c *ssa.CallCommon, args []Val, pos token.Pos) []callOut {
			x.e.needBytes()
			st.groups["bytes"] = true
			loc := st.newLoc("rdr")
			st.ghostWrite(st.ghost("rem"), loc, st.name("W", "Bytes", st.window(args[0].T)))
			return one(st, Val{T: loc, Ty: c.Signature().Results().At(0).Type()})
		}, "alloc", "gh:rem")

	reg("bytes.(*Reader).Len", "(*bytes.Reader).Len(): the number of unread bytes", func(x *Exec, st *State, fr *frame, c *ssa.CallCommon, args []Val, pos token.Pos) []callOut {
		x.e.needBytes()
		st.groups["bytes"] = true
		r := Val{T: "(blen " + st.ghostRead(st.ghost("rem"), st.term(args[0])) + ")", Ty: intT}
		return one(st, r)
	})
	reg("encoding/binary.(littleEndian).PutUint16", "binary.LittleEndian.PutUint16(b, v): panics unless len(b) >= 2; writes the little-endian bytes of v to b[0:2]",
		func(x *Exec, st *State, fr *frame, c *ssa.CallCommon, args []Val, pos token.Pos) []callOut {
			x.e.needBytes()
			st.groups["bytes"] = true
			b, v := args[len(args)-2], args[len(args)-1]
			x.obligeAt(st, fr, "index-bounds", pos, "PutUint16", "(>= (s_len "+b.T+") 2)")
			st.assume("(>= (s_len " + b.T + ") 2)")
			W := st.name("W", "Bytes", st.window(b.T))
			st.writeWindow(b.T, "(bcat (le2 "+v.T+") (bdrop "+W+" 2))")
			return one(st, Val{})
		}, "E:uint8")

	// ---- reflect, as used by decode(*Fcall): rv := reflect.New(reflect.TypeOf(message)); rv.Interface(); rv.Elem().Interface()
	reg("reflect.TypeOf", "reflect.TypeOf(v): the dynamic type of v", func(x *Exec, st *State, fr *frame, c *ssa.CallCommon, args []Val, pos token.Pos) []callOut {
		if args[0].Dyn == nil {
			x.fail(st, "reflect.TypeOf", "dynamic type not known on this path")
			return nil
		}
		return one(st, Val{T: fmt.Sprint(x.e.typeTag(args[0].Dyn)), Ty: c.Signature().Results().At(0).Type(), Refl: &ReflVal{Kind: "type", T: args[0].Dyn}})
	})
	reg("reflect.New", "reflect.New(t): a Value holding a pointer to a new zero value of type t", func(x *Exec, st *State, fr *frame, c *ssa.CallCommon, args []Val, pos token.Pos) []callOut {
		r := args[0].Refl
		if r == nil || r.Kind != "type" {
			x.fail(st, "reflect.New", "type not known on this path")
			return nil
		}
		cell := st.newCell(r.T, Val{T: x.e.zero(r.T), Ty: r.T})
		a := &Addr{Kind: ALocal, Cell: cell, RootTy: r.T}
		return one(st, Val{T: "0", Ty: c.Signature().Results().At(0).Type(), Refl: &ReflVal{Kind: "ptr", T: r.T, A: a}})
	}, "alloc")
	reg("reflect.(Value).Elem", "Value.Elem() of a pointer Value: the Value of the target", func(x *Exec, st *State, fr *frame, c *ssa.CallCommon, args []Val, pos token.Pos) []callOut {
		r := args[0].Refl
		if r == nil || r.Kind != "ptr" {
			x.fail(st, "reflect.Value.Elem", "value not known on this path")
			return nil
		}
		return one(st, Val{T: "0", Ty: c.Signature().Results().At(0).Type(), Refl: &ReflVal{Kind: "elem", T: r.T, A: r.A}})
	})
	reg("reflect.(Value).Interface", "Value.Interface(): the held value as an interface{}", func(x *Exec, st *State, fr *frame, c *ssa.CallCommon, args []Val, pos token.Pos) []callOut {
		r := args[0].Refl
		it := c.Signature().Results().At(0).Type()
		if r == nil {
			x.fail(st, "reflect.Value.Interface", "value not known on this path")
			return nil
		}
		switch r.Kind {
		case "ptr":
			return one(st, x.ifaceOf(st, Val{Ty: types.NewPointer(r.T), Addr: r.A}, it))
		case "elem":
			v := st.load(r.A)
			v.Ty = r.T
			return one(st, x.ifaceOf(st, v, it))
		}
		x.fail(st, "reflect.Value.Interface", r.Kind)
		return nil
	})

	// ---- time: only the whole seconds since the epoch matter to the codec
	reg("time.(Time).Unix", "t.Unix(): seconds since the epoch (uninterpreted function of t, int64)", func(x *Exec, st *State, fr *frame, c *ssa.CallCommon, args []Val, pos token.Pos) []callOut {
		x.e.needTime()
		r := Val{T: "(time_unix " + args[0].T + ")", Ty: types.Typ[types.Int64]}
		st.assume(x.e.typeInv(r.Ty, r.T))
		return one(st, r)
	})
	reg("time.Unix", "time.Unix(s, 0): the time s seconds after the epoch; time.Unix(s,0).UTC().Unix() == s (assumed)", func(x *Exec, st *State, fr *frame, c *ssa.CallCommon, args []Val, pos token.Pos) []callOut {
		x.e.needTime()
		if args[1].T != "0" {
			return one(st, st.fresh("time", c.Signature().Results().At(0).Type()))
		}
		return one(st, Val{T: "(time_of " + args[0].T + ")", Ty: c.Signature().Results().At(0).Type()})
	})
	reg("time.(Time).UTC", "t.UTC(): the same instant in UTC; idempotent, Unix() unchanged (assumed)", func(x *Exec, st *State, fr *frame, c *ssa.CallCommon, args []Val, pos token.Pos) []callOut {
		x.e.needTime()
		return one(st, Val{T: "(time_utc " + args[0].T + ")", Ty: c.Signature().Results().At(0).Type()})
	})
}

func (e *Engine) needTime() {
	so := e.sortOf(e.timeType())
	e.d.add("time", fmt.Sprintf("(declare-fun time_unix (%s) Int)\n(declare-fun time_of (Int) %s)\n(declare-fun time_utc (%s) %s)", so, so, so, so))
	e.d.addAxiom("time", "time_unix_of", fmt.Sprintf("(forall ((s Int)) (! (= (time_unix (time_utc (time_of s))) s) :pattern ((time_of s))))"))
	e.d.addAxiom("time", "time_utc_unix", fmt.Sprintf("(forall ((t %s)) (! (= (time_unix (time_utc t)) (time_unix t)) :pattern ((time_utc t))))", so))
	e.d.addAxiom("time", "time_utc_idem", fmt.Sprintf("(forall ((t %s)) (! (= (time_utc (time_utc t)) (time_utc t)) :pattern ((time_utc t))))", so))
}

func (e *Engine) timeType() types.Type {
	return e.prog.ImportedPackage("time").Pkg.Scope().Lookup("Time").Type()
}

// ioErrGlobal: the constant term of io.EOF / io.ErrUnexpectedEOF.
func (e *Engine) ioErrGlobal(st *State, name string) string {
	g := e.prog.ImportedPackage("io").Var(name)
	c, _ := e.constGlobal(g)
	return c
}
