package main

import (
	"fmt"
	"go/token"
	"go/types"
	"sort"
	"strings"

	"golang.org/x/tools/go/ssa"
)

// Addr is a Go-side representation of a pointer value.
type AddrKind int

const (
	ALocal AddrKind = iota // a local cell of the current symbolic path
	AObj                   // a heap object (Loc term) of RootTy
	AElem                  // element Idx of the backing array Base (RootTy = element type)
	AGlobal                // package-level variable
)

type Addr struct {
	Kind   AddrKind
	Cell   int
	Loc    string
	Base   string
	Idx    string
	Global *ssa.Global
	RootTy types.Type
	Path   []int // field path below the root
}

func (a *Addr) withField(i int) *Addr {
	b := *a
	b.Path = append(append([]int{}, a.Path...), i)
	return &b
}

type Closure struct {
	Fn       *ssa.Function
	Bindings []Val
}

// Val is a symbolic Go value.
type Val struct {
	T     string // SMT term ("" if only Go-side)
	Ty    types.Type
	Addr  *Addr    // pointer values whose target is known structurally
	Tuple []Val    // tuple values
	Clo   *Closure // function values created on this path
	Dyn   types.Type // interfaces: dynamic type when statically known on this path
	Payload *Val     // interfaces: boxed value when known on this path
	ArrLen  int      // slices of a whole fixed-size array created on this path (variadic arguments): its length
	ArrBase string
	ArrOff  int      // offset of the slice inside that array
	HasArr  bool     // ArrLen/ArrBase/ArrOff are meaningful (ArrLen may be 0)
	Refl    *ReflVal // reflect.Type / reflect.Value values known on this path
	NonNil  bool        // interface / pointer values known to be non-nil by construction (errors made by externs)
	Sub     map[int]Val // struct values: fields whose value is known structurally (dynamic types of interface fields, ...)
}

// ReflVal: the little of package reflect that decode(*Fcall) uses, tracked structurally.
type ReflVal struct {
	Kind string // type | ptr | elem
	T    types.Type
	A    *Addr
}

type deferred struct {
	call *ssa.CallCommon
	args []Val // evaluated at defer time (callee value first for closures)
	fn   Val
	pos  token.Pos
}

type frame struct {
	fn     *ssa.Function
	regs   map[ssa.Value]Val
	defers []deferred
	params []Val
	// loop bookkeeping: headers currently "inside"
	loops map[*ssa.BasicBlock]bool
	prev  *ssa.BasicBlock
	recovering bool
	allocs []*ssa.Alloc
	decs   map[*ssa.BasicBlock]string
	curLine, curText string
	unrolled map[*ssa.BasicBlock]int
	loopEntry map[*ssa.BasicBlock]map[string]string // heap snapshot at the first arrival at a loop head: entry(e) in invariants
	loopEntryCells map[*ssa.BasicBlock]map[int]Val
	idxNext map[string]string // index value term -> the constant naming its successor on this path (copy-on-write)
}

// State is one symbolic path.
type State struct {
	e      *Engine
	cmds   []string          // path-local SMT commands (declare-const/assert)
	pc     []string          // (documentation) path condition conjuncts, also in cmds
	cells  map[int]Val       // local cells
	cellTy map[int]types.Type
	heap   map[string]string // heap id -> current term
	heap0  map[string]string // snapshot at function entry (for old())
	ghostLog []string
	held   string // lock ledger term (Array Int Bool) or ""
	depth  int
	trace  []string // human-readable decisions for witnesses
	dead   bool
	groups map[string]bool // axiom groups required
	promoted map[int]string      // cell -> heap location once its address escaped (copy-on-write)
	encoded  map[string]*Addr    // opaque location term -> interior address (copy-on-write)
	closures map[string]*Closure // opaque function value term -> closure (copy-on-write)
	stale    map[string]int      // heaps havocked before their first use (copy-on-write)
	epoch    int
	chans    map[string]string   // channel loc term -> declared channel name (copy-on-write)
	inflight string
	assumed  map[string]bool
	noNames  bool
	shadow   map[string]shadowEnt // heap id | object | index  ->  structurally known value stored there (copy-on-write)
	freshLocs map[string]bool     // locations allocated on this path (pairwise distinct objects); shared between clones, names are unique
	shadowPrecise bool
	elemNames map[string][2]string // element pointer term -> the constants naming its base and index on this path (copy-on-write)
	bind     *heapBind // non-nil while an axiom / spec function body is evaluated: heaps are bound variables
}

var cellCounter int

func (e *Engine) newState() *State {
	return &State{e: e, cells: map[int]Val{}, cellTy: map[int]types.Type{}, heap: map[string]string{}, heap0: nil, groups: map[string]bool{}, freshLocs: map[string]bool{}}
}

func (s *State) clone() *State {
	n := &State{e: s.e, depth: s.depth, held: s.held, dead: s.dead}
	n.cmds = append([]string(nil), s.cmds...)
	n.pc = append([]string(nil), s.pc...)
	n.trace = append([]string(nil), s.trace...)
	n.cells = make(map[int]Val, len(s.cells))
	for k, v := range s.cells {
		n.cells[k] = v
	}
	n.cellTy = s.cellTy // shared: append-only per cell id
	n.heap = make(map[string]string, len(s.heap))
	for k, v := range s.heap {
		n.heap[k] = v
	}
	n.heap0 = s.heap0
	n.groups = s.groups
	n.promoted, n.encoded, n.closures, n.stale, n.epoch, n.chans, n.assumed = s.promoted, s.encoded, s.closures, s.stale, s.epoch, s.chans, s.assumed
	n.shadow = s.shadow
	n.freshLocs = s.freshLocs
	n.elemNames = s.elemNames
	return n
}

func (s *State) declare(name, sort string) {
	s.cmds = append(s.cmds, fmt.Sprintf("(declare-const %s %s)", name, sort))
}

func (s *State) assume(t string) {
	if t == "true" || t == "" {
		return
	}
	s.cmds = append(s.cmds, "(assert "+t+")")
}

func (s *State) assumePC(t string) {
	s.pc = append(s.pc, t)
	s.assume(t)
}

// fresh declares a new constant of the sort of ty, constrained by its type invariant.
func (s *State) fresh(prefix string, ty types.Type) Val {
	if tup, ok := ty.(*types.Tuple); ok {
		if tup.Len() == 0 {
			return Val{Ty: ty}
		}
		if tup.Len() == 1 {
			return s.fresh(prefix, tup.At(0).Type())
		}
		var vs []Val
		for i := 0; i < tup.Len(); i++ {
			vs = append(vs, s.fresh(prefix, tup.At(i).Type()))
		}
		return Val{Tuple: vs, Ty: ty}
	}
	n := s.e.freshName(sanitize(prefix))
	s.declare(n, s.e.sortOf(ty))
	s.assume(s.e.typeInv(ty, n))
	return Val{T: n, Ty: ty}
}

func (s *State) freshSort(prefix, sort string) string {
	n := s.e.freshName(sanitize(prefix))
	s.declare(n, sort)
	return n
}

// name binds a (possibly large) term to a fresh constant to keep terms small.
func (s *State) name(prefix string, sort string, term string) string {
	if len(term) < 60 || s.noNames {
		return term
	}
	n := s.e.freshName(sanitize(prefix))
	s.declare(n, sort)
	s.assume(eq(n, term))
	return n
}

// ---------------------------------------------------------------- heaps

func (e *Engine) heapSortOf(id string) string { return e.heapSorts[id] }

// heapTerm returns the current term for heap id, declaring the initial version on demand.
func (s *State) heapTerm(id, sort string) string {
	if t, ok := s.heap[id]; ok {
		return t
	}
	e := s.e
	if s.bind != nil {
		// axioms and definitions of spec functions: the heap is a bound variable
		if e.heapSorts == nil {
			e.heapSorts = map[string]string{}
		}
		if e.heapSorts[id] == "" {
			e.heapSorts[id] = sort
		}
		n := "hb_" + sanitize(id)
		s.heap[id] = n
		s.bind.ids = append(s.bind.ids, id)
		s.bind.sorts = append(s.bind.sorts, sort)
		return n
	}
	if e.heapSorts == nil {
		e.heapSorts = map[string]string{}
	}
	e.heapSorts[id] = sort
	n0 := e.d.symbol("H0_", id)
	e.d.add("heap0:"+id, fmt.Sprintf("(declare-const %s %s)", n0, sort))
	if s.heap0 != nil {
		if _, ok := s.heap0[id]; !ok {
			s.heap0[id] = n0
		}
	}
	n := n0
	if s.epoch > 0 || s.stale[id] > 0 {
		// the heap was havocked before its first use on this path: it is not the initial version
		n = e.d.symbol(fmt.Sprintf("H%d_%d_", s.epoch, s.stale[id]), id)
		e.d.add(fmt.Sprintf("heap%d_%d:%s", s.epoch, s.stale[id], id), fmt.Sprintf("(declare-const %s %s)", n, sort))
	}
	s.heap[id] = n
	return n
}

func (s *State) setHeap(id, sort, term string) {
	if !s.shadowPrecise {
		s.dropShadow(id)
	}
	s.heapTerm(id, sort) // make sure initial version is recorded
	n := s.e.freshName("H_" + sanitize(id))
	s.declare(n, sort)
	s.assume(eq(n, term))
	s.heap[id] = n
}

func isLiteralInt(t string) bool {
	if t == "" {
		return false
	}
	for _, c := range t {
		if c < '0' || c > '9' {
			return false
		}
	}
	return true
}

type heapBind struct {
	ids, sorts []string
}

type shadowEnt struct {
	id, obj, idx string
	v            Val
}

func structured(v Val) bool {
	return v.Dyn != nil || v.Payload != nil || v.Addr != nil || v.Refl != nil || v.HasArr || len(v.Sub) > 0 || v.Clo != nil || v.NonNil
}

// dropShadow forgets structurally known contents of a heap that is havocked or written through an unknown address.
func (s *State) dropShadow(id string) {
	if len(s.shadow) == 0 {
		return
	}
	n := map[string]shadowEnt{}
	for k, v := range s.shadow {
		if v.id != id {
			n[k] = v
		}
	}
	s.shadow = n
}

// shadowWrite records a write of v to (id, obj, idx); entries that may alias the written location are forgotten:
// another object aliases unless both are allocations of this path; another index aliases unless both are literals.
func (s *State) shadowWrite(id, obj, idx string, v Val) {
	if len(s.shadow) == 0 && !structured(v) {
		return
	}
	n := make(map[string]shadowEnt, len(s.shadow)+1)
	for k, e := range s.shadow {
		if e.id == id {
			if e.obj == obj {
				if e.idx == idx || !(isLiteralInt(e.idx) && isLiteralInt(idx)) {
					continue
				}
			} else if !(s.freshLocs[e.obj] && s.freshLocs[obj]) {
				continue
			}
		}
		n[k] = e
	}
	if structured(v) && (idx == "" || isLiteralInt(idx)) {
		n[id+"|"+obj+"|"+idx] = shadowEnt{id, obj, idx, v}
	}
	s.shadow = n
}

func (s *State) shadowRead(id, obj, idx string) (Val, bool) {
	e, ok := s.shadow[id+"|"+obj+"|"+idx]
	return e.v, ok
}

func (s *State) havocHeap(id string) {
	s.dropShadow(id)
	sort := s.e.heapSorts[id]
	if sort == "" {
		return
	}
	s.heapTerm(id, sort)
	old := s.heapTerm(id, sort)
	n := s.e.freshName("Hv_" + sanitize(id))
	s.declare(n, sort)
	if id == "gh:$iofail" {
		s.assume("(>= " + n + " " + old + ")") // the failure counter is monotone
	}
	s.heap[id] = n
}

func fieldHeapID(si *StructInfo, i int) string { return "F:" + si.Key + "." + si.Fields[i].Name() }

func (s *State) readField(si *StructInfo, i int, loc string) string {
	h := s.heapTerm(fieldHeapID(si, i), "(Array Int "+si.FSort[i]+")")
	return "(select " + h + " " + loc + ")"
}

func (s *State) writeField(si *StructInfo, i int, loc, v string) {
	id := fieldHeapID(si, i)
	sort := "(Array Int " + si.FSort[i] + ")"
	h := s.heapTerm(id, sort)
	s.setHeap(id, sort, "(store "+h+" "+loc+" "+v+")")
}

func elemHeapID(t types.Type) string { return "E:" + typeKey(t) }
func ptrHeapID(t types.Type) string  { return "P:" + typeKey(t) }

func (s *State) elemHeap(t types.Type) (id, sort, term string) {
	id = elemHeapID(t)
	sort = "(Array Int (Array Int " + s.e.sortOf(t) + "))"
	return id, sort, s.heapTerm(id, sort)
}

func (s *State) readElem(t types.Type, base, idx string) string {
	_, _, h := s.elemHeap(t)
	return "(select (select " + h + " " + base + ") " + idx + ")"
}

func (s *State) writeElem(t types.Type, base, idx, v string) {
	id, sort, h := s.elemHeap(t)
	s.setHeap(id, sort, "(store "+h+" "+base+" (store (select "+h+" "+base+") "+idx+" "+v+"))")
}

// ---------------------------------------------------------------- allocation

const allocHeap = "alloc"

func (s *State) allocTerm() string { return s.heapTerm(allocHeap, "(Array Int Bool)") }

// newLoc returns a fresh, previously unallocated, non-nil location.
func (s *State) newLoc(prefix string) string {
	l := s.freshSort(prefix, "Int")
	a := s.allocTerm()
	s.assume("(> " + l + " 0)")
	s.assume("(not (select " + a + " " + l + "))")
	s.setHeap(allocHeap, "(Array Int Bool)", "(store "+a+" "+l+" true)")
	s.freshLocs[l] = true
	if s.e.eptrDone {
		s.assume("(not (iselem " + l + "))") // objects are not slice elements
	}
	return l
}

// assumeAllocated records that a value read from memory/parameters is well typed and, if pointer-like, nil or allocated.
func (s *State) assumeAllocated(t types.Type, x string) {
	if _, isSpec := t.(*SpecSort); isSpec {
		return
	}
	key := x + "@" + s.heap[allocHeap]
	if s.assumed[key] {
		return
	}
	n := make(map[string]bool, len(s.assumed)+1)
	for k := range s.assumed {
		n[k] = true
	}
	n[key] = true
	s.assumed = n
	if len(x) > 200 {
		return
	}
	s.assume(s.e.typeInv(t, x))
	switch u := t.Underlying().(type) {
	case *types.Pointer, *types.Map, *types.Chan:
		s.assume(or("(= "+x+" 0)", "(select "+s.allocTerm()+" "+x+")"))
	case *types.Slice:
		s.assume(or("(= (s_base "+x+") 0)", "(select "+s.allocTerm()+" (s_base "+x+"))"))
	case *types.Struct:
		// pointers and slices nested in a struct value are allocated too
		si := s.e.structInfo(t)
		for i, f := range si.Fields {
			switch f.Type().Underlying().(type) {
			case *types.Pointer, *types.Map, *types.Chan, *types.Slice, *types.Struct:
				s.assumeAllocated(f.Type(), app(si.Sel[i], x))
			}
		}
	case *types.Interface:
		_ = u
		// payloads of pointer types are locations too; we cannot know statically. Constrain when unboxed.
	}
}

// ---------------------------------------------------------------- cells & addresses

func (s *State) newCell(ty types.Type, v Val) int {
	cellCounter++
	id := cellCounter
	s.cells[id] = v
	s.cellTy[id] = ty
	return id
}

// project selects the sub-value at path from value v of type ty.
func (s *State) project(v string, ty types.Type, path []int) (string, types.Type) {
	for _, i := range path {
		si := s.e.structInfo(ty)
		v = app(si.Sel[i], v)
		ty = si.Fields[i].Type()
	}
	return v, ty
}

// update returns v with the sub-value at path replaced by nv.
func (s *State) update(v string, ty types.Type, path []int, nv string) string {
	if len(path) == 0 {
		return nv
	}
	si := s.e.structInfo(ty)
	var as []string
	for j := range si.Fields {
		if j == path[0] {
			as = append(as, s.update(app(si.Sel[j], v), si.Fields[j].Type(), path[1:], nv))
		} else {
			as = append(as, app(si.Sel[j], v))
		}
	}
	return app(si.Ctor, as...)
}

func isStruct(t types.Type) bool { _, ok := t.Underlying().(*types.Struct); return ok }

// structFromHeap builds the by-value struct stored at loc.
func (s *State) structFromHeap(ty types.Type, loc string) string {
	si := s.e.structInfo(ty)
	var as []string
	for i := range si.Fields {
		as = append(as, s.readField(si, i, loc))
	}
	return app(si.Ctor, as...)
}

func (s *State) structToHeap(ty types.Type, loc string, v string) {
	si := s.e.structInfo(ty)
	for i := range si.Fields {
		s.writeField(si, i, loc, app(si.Sel[i], v))
	}
}

// load reads the value at address a.
func (s *State) load(a *Addr) Val {
	switch a.Kind {
	case ALocal:
		if l := s.promoted[a.Cell]; l != "" {
			return s.load(&Addr{Kind: AObj, Loc: l, RootTy: s.cellTy[a.Cell], Path: a.Path})
		}
		cv := s.cells[a.Cell]
		if len(a.Path) == 0 {
			return cv
		}
		if len(a.Path) == 1 {
			if sv, ok := cv.Sub[a.Path[0]]; ok {
				return sv
			}
		}
		t, ty := s.project(cv.T, s.cellTy[a.Cell], a.Path)
		return Val{T: t, Ty: ty}
	case AObj:
		if isStruct(a.RootTy) {
			if len(a.Path) == 0 {
				sv := Val{T: s.name("sv", s.e.sortOf(a.RootTy), s.structFromHeap(a.RootTy, a.Loc)), Ty: a.RootTy}
				s.assumeAllocated(a.RootTy, sv.T)
				if len(s.shadow) > 0 {
					si := s.e.structInfo(a.RootTy)
					for i := range si.Fields {
						if fv, ok := s.shadowRead(fieldHeapID(si, i), a.Loc, ""); ok {
							if sv.Sub == nil {
								sv.Sub = map[int]Val{}
							}
							sv.Sub[i] = fv
						}
					}
				}
				return sv
			}
			si := s.e.structInfo(a.RootTy)
			if len(a.Path) == 1 {
				if fv, ok := s.shadowRead(fieldHeapID(si, a.Path[0]), a.Loc, ""); ok {
					return fv
				}
			}
			fv := s.readField(si, a.Path[0], a.Loc)
			t, ty := s.project(fv, si.Fields[a.Path[0]].Type(), a.Path[1:])
			s.assumeAllocated(ty, t)
			return Val{T: t, Ty: ty}
		}
		id := ptrHeapID(a.RootTy)
		if len(a.Path) == 0 {
			if fv, ok := s.shadowRead(id, a.Loc, ""); ok {
				return fv
			}
		}
		h := s.heapTerm(id, "(Array Int "+s.e.sortOf(a.RootTy)+")")
		t, ty := s.project("(select "+h+" "+a.Loc+")", a.RootTy, a.Path)
		s.assumeAllocated(ty, t)
		return Val{T: t, Ty: ty}
	case AElem:
		if len(a.Path) == 0 {
			if sv, ok := s.shadowRead(elemHeapID(a.RootTy), a.Base, a.Idx); ok {
				return sv
			}
		}
		ev := s.readElem(a.RootTy, a.Base, a.Idx)
		t, ty := s.project(ev, a.RootTy, a.Path)
		s.assumeAllocated(ty, t)
		return Val{T: t, Ty: ty}
	case AGlobal:
		ty := a.RootTy
		if c, ok := s.e.constGlobal(a.Global); ok {
			t, ty2 := s.project(c, ty, a.Path)
			return Val{T: t, Ty: ty2}
		}
		id := "G:" + a.Global.Pkg.Pkg.Name() + "." + a.Global.Name()
		h := s.heapTerm(id, s.e.sortOf(ty))
		t, ty2 := s.project(h, ty, a.Path)
		s.assumeAllocated(ty2, t)
		return Val{T: t, Ty: ty2}
	}
	panic("load")
}

func (s *State) store(a *Addr, v Val) {
	if a.Kind == AObj || a.Kind == AElem {
		if v.T == "" {
			v.T = s.term(v) // may promote cells (writes heaps) before the precise section
		}
		s.shadowPrecise = true
		defer func() { s.shadowPrecise = false }()
	}
	switch a.Kind {
	case ALocal:
		if l := s.promoted[a.Cell]; l != "" {
			s.store(&Addr{Kind: AObj, Loc: l, RootTy: s.cellTy[a.Cell], Path: a.Path}, v)
			return
		}
		if len(a.Path) == 0 {
			v.Ty = s.cellTy[a.Cell]
			s.cells[a.Cell] = v
			return
		}
		cv := s.cells[a.Cell]
		nt := s.update(cv.T, s.cellTy[a.Cell], a.Path, s.term(v))
		nv := Val{T: s.name("cv", s.e.sortOf(s.cellTy[a.Cell]), nt), Ty: s.cellTy[a.Cell]}
		if len(cv.Sub) > 0 || structured(v) {
			nv.Sub = map[int]Val{}
			for k, x := range cv.Sub {
				if k != a.Path[0] {
					nv.Sub[k] = x
				}
			}
			if len(a.Path) == 1 && structured(v) {
				nv.Sub[a.Path[0]] = v
			}
		}
		s.cells[a.Cell] = nv
	case AObj:
		if isStruct(a.RootTy) {
			si := s.e.structInfo(a.RootTy)
			if len(a.Path) == 0 {
				s.structToHeap(a.RootTy, a.Loc, s.term(v))
				for i := range si.Fields {
					s.shadowWrite(fieldHeapID(si, i), a.Loc, "", v.Sub[i])
				}
				return
			}
			i := a.Path[0]
			if len(a.Path) == 1 {
				s.writeField(si, i, a.Loc, s.term(v))
				s.shadowWrite(fieldHeapID(si, i), a.Loc, "", v)
				return
			}
			old := s.readField(si, i, a.Loc)
			s.writeField(si, i, a.Loc, s.update(old, si.Fields[i].Type(), a.Path[1:], s.term(v)))
			s.shadowWrite(fieldHeapID(si, i), a.Loc, "", Val{})
			return
		}
		id := ptrHeapID(a.RootTy)
		sort := "(Array Int " + s.e.sortOf(a.RootTy) + ")"
		h := s.heapTerm(id, sort)
		nv := s.update("(select "+h+" "+a.Loc+")", a.RootTy, a.Path, s.term(v))
		s.setHeap(id, sort, "(store "+h+" "+a.Loc+" "+nv+")")
		if len(a.Path) == 0 {
			s.shadowWrite(id, a.Loc, "", v)
		} else {
			s.shadowWrite(id, a.Loc, "", Val{})
		}
	case AElem:
		old := s.readElem(a.RootTy, a.Base, a.Idx)
		s.writeElem(a.RootTy, a.Base, a.Idx, s.update(old, a.RootTy, a.Path, s.term(v)))
		if len(a.Path) == 0 {
			s.shadowWrite(elemHeapID(a.RootTy), a.Base, a.Idx, v)
		} else {
			s.shadowWrite(elemHeapID(a.RootTy), a.Base, a.Idx, Val{})
		}
	case AGlobal:
		id := "G:" + a.Global.Pkg.Pkg.Name() + "." + a.Global.Name()
		sort := s.e.sortOf(a.RootTy)
		h := s.heapTerm(id, sort)
		s.setHeap(id, sort, s.update(h, a.RootTy, a.Path, s.term(v)))
	}
}

// term returns the SMT term of v; pointer values known only structurally must be object pointers.
func (s *State) term(v Val) string {
	if v.T != "" {
		return v.T
	}
	if v.Addr != nil {
		if v.Addr.Kind == AObj && len(v.Addr.Path) == 0 {
			return v.Addr.Loc
		}
		// interior or local pointer escaping into a term: encode as an opaque fresh
		// location and remember the mapping so that it can be resolved again.
		return s.e.encodeAddr(s, v.Addr)
	}
	if v.Clo != nil {
		return s.e.encodeClosure(s, v.Clo)
	}
	panic(fmt.Sprintf("term: value without term (type %v)", v.Ty))
}

// ---------------------------------------------------------------- utilities

func sortedKeys(m map[string]string) []string {
	var ks []string
	for k := range m {
		ks = append(ks, k)
	}
	sort.Strings(ks)
	return ks
}

func (s *State) note(format string, a ...interface{}) {
	s.trace = append(s.trace, fmt.Sprintf(format, a...))
}

func shortPos(fset *token.FileSet, p token.Pos) string {
	if !p.IsValid() {
		return "?"
	}
	pp := fset.Position(p)
	f := pp.Filename
	if i := strings.LastIndex(f, "/repo/"); i >= 0 {
		f = f[i+6:]
	}
	return fmt.Sprintf("%s:%d", f, pp.Line)
}

// assumeZeroArray states that every element of the (freshly allocated) array term is the zero value of et.
func (s *State) assumeZeroArray(arr string, et types.Type) {
	so := s.e.sortOf(et)
	z := s.e.zero(et)
	if so == "Int" || so == "Bool" {
		s.assume(eq(arr, "((as const (Array Int "+so+")) "+z+")"))
		return
	}
	// cvc5 accepts only values in constant arrays: use a quantified fact for uninterpreted/datatype sorts
	a := s.name("za", "(Array Int "+so+")", arr)
	if a == arr {
		a = s.freshSort("za", "(Array Int "+so+")")
		s.assume(eq(a, arr))
	}
	s.assume("(forall ((i Int)) (! (= (select " + a + " i) " + z + ") :pattern ((select " + a + " i))))")
}
