package main

import (
	"fmt"
	"go/types"
	"sort"
	"strings"

	"golang.org/x/tools/go/ssa"
)

// constGlobal: package-level variables that are never assigned outside their package initialiser are constants.
// Error values get their initialiser evaluated when it is a call of an analysed constructor on constants;
// otherwise they are opaque, non-nil, pairwise distinct values of a dynamic type outside the analysed packages.
func (e *Engine) constGlobal(g *ssa.Global) (string, bool) {
	key := g.Pkg.Pkg.Path() + "." + g.Name()
	if c, ok := e.globalConst[key]; ok {
		return c, c != ""
	}
	e.globalConst[key] = ""
	et := g.Type().(*types.Pointer).Elem()
	if !e.immutableGlobal(g) {
		return "", false
	}
	sym := e.d.symbol("G_", g.Pkg.Pkg.Name()+"."+g.Name())
	so := e.sortOf(et)
	e.d.add("global:"+key, fmt.Sprintf("(declare-const %s %s)", sym, so))
	e.globalConst[key] = sym
	if v, ok := e.evalGlobalInit(g); ok {
		e.d.addAxiom("core", "global_"+key, eq(sym, v))
		return sym, true
	}
	e.d.addAxiom("core", "globalinv_"+key, e.typeInv(et, sym))
	if isErrorType(et) {
		e.d.addAxiom("core", "globalerr_"+key, fmt.Sprintf("(and (> (i_tag %s) %d) (> (i_ref %s) 0))", sym, maxKnownTag, sym))
		e.errGlobals = append(e.errGlobals, sym)
	}
	return sym, true
}

func (e *Engine) immutableGlobal(g *ssa.Global) bool {
	if !e.analysed(g.Pkg.Func("init")) {
		// library globals (io.EOF, binary.LittleEndian, ...) are treated as constants
		return true
	}
	for _, m := range g.Pkg.Members {
		fn, ok := m.(*ssa.Function)
		if !ok {
			continue
		}
		if storesGlobal(fn, g) && fn.Name() != "init" {
			return false
		}
	}
	for fn := range e.allFuncs {
		if fn.Pkg == g.Pkg && fn.Name() != "init" && storesGlobal(fn, g) {
			return false
		}
	}
	return true
}

func storesGlobal(fn *ssa.Function, g *ssa.Global) bool {
	for _, b := range fn.Blocks {
		for _, in := range b.Instrs {
			if s, ok := in.(*ssa.Store); ok {
				if rootGlobal(s.Addr) == g {
					return true
				}
			}
		}
	}
	for _, af := range fn.AnonFuncs {
		if storesGlobal(af, g) {
			return true
		}
	}
	return false
}

func rootGlobal(v ssa.Value) *ssa.Global {
	switch v := v.(type) {
	case *ssa.Global:
		return v
	case *ssa.FieldAddr:
		return rootGlobal(v.X)
	case *ssa.IndexAddr:
		return rootGlobal(v.X)
	}
	return nil
}

// evalGlobalInit evaluates `var G = f(consts...)` for analysed constructors whose result is a closed term.
func (e *Engine) evalGlobalInit(g *ssa.Global) (string, bool) {
	init := g.Pkg.Func("init")
	if init == nil || !e.analysed(init) {
		return "", false
	}
	for _, b := range init.Blocks {
		for _, in := range b.Instrs {
			s, ok := in.(*ssa.Store)
			if !ok || s.Addr != g {
				continue
			}
			call, ok := s.Val.(*ssa.Call)
			if !ok {
				continue
			}
			fn := call.Call.StaticCallee()
			if fn == nil || !e.analysed(fn) || fn.Blocks == nil {
				return "", false
			}
			x := &Exec{e: e, root: fn, siteN: map[string]int{}, sitePos: map[string]int{}, maxSteps: 10000}
			st := e.newState()
			st.noNames = true
			fr := x.newFrame(init)
			var args []Val
			for _, a := range call.Call.Args {
				c, ok := a.(*ssa.Const)
				if !ok {
					return "", false
				}
				args = append(args, x.constVal(st, c))
			}
			outs := x.inline(st, fr, fn, nil, args, call.Pos())
			if len(outs) != 1 || len(x.obls) > 0 {
				return "", false
			}
			for _, c := range outs[0].st.cmds {
				if strings.HasPrefix(c, "(declare-const") {
					return "", false
				}
			}
			return outs[0].st.term(outs[0].val), true
		}
	}
	return "", false
}

func (e *Engine) errGlobalsDistinct() string {
	if len(e.errGlobals) < 2 {
		return ""
	}
	gs := append([]string(nil), e.errGlobals...)
	sort.Strings(gs)
	var refs []string
	for _, g := range gs {
		refs = append(refs, "(i_ref "+g+")")
	}
	return "(assert (distinct " + strings.Join(refs, " ") + "))\n"
}
