package main

// Extern contracts: trusted models of library functions, written in Go against the
// symbolic state. Every extern actually used by a check is listed in its evidence file.

import (
	"fmt"
	"sort"
	"go/token"
	"go/types"
	"strings"

	"golang.org/x/tools/go/ssa"
)

var externDoc = map[string]string{}

func (e *Engine) registerExterns() {
	reg := func(name, doc string, f externFn, mods ...string) {
		e.externs[name] = f
		externDoc[name] = doc
		e.externMods[name] = mods
	}
	// ---- errors / fmt / log
	freshErr := func(k int) externFn {
		return func(x *Exec, st *State, fr *frame, c *ssa.CallCommon, args []Val, pos token.Pos) []callOut {
			ref := st.freshSort("errref", "Int")
			st.assume("(> " + ref + " 0)")
			return one(st, Val{T: fmt.Sprintf("(mk_iface %d %s)", maxKnownTag+k, ref), Ty: c.Signature().Results().At(0).Type()})
		}
	}
	reg("errors.New", "returns a fresh non-nil error whose dynamic type is outside the analysed packages", freshErr(1))
	reg("fmt.Errorf", "returns a fresh non-nil error whose dynamic type is outside the analysed packages", freshErr(2))
	nop := func(x *Exec, st *State, fr *frame, c *ssa.CallCommon, args []Val, pos token.Pos) []callOut {
		return one(st, st.fresh("ext", c.Signature().Results()))
	}
	for _, n := range []string{"log.Printf", "log.Println", "log.Print", "fmt.Println", "fmt.Printf", "fmt.Print"} {
		reg(n, "no effect on program state", nop)
	}
	// ---- pure deterministic functions: uninterpreted function of the arguments
	for _, n := range []string{"strings.ContainsAny", "strings.Contains", "strings.Count", "strings.Join", "strings.Trim", "strings.Split",
		"strings.HasPrefix", "strings.HasSuffix", "strings.ToLower", "strings.TrimPrefix", "strings.TrimSuffix",
		"path.Join", "path.Clean", "path.IsAbs", "path.Dir", "path.Base", "path/filepath.Join", "path/filepath.FromSlash", "path/filepath.Clean",
		"fmt.Sprintf", "fmt.Sprint", "strconv.Itoa"} {
		name := n
		reg(name, "deterministic function of its arguments (uninterpreted)", func(x *Exec, st *State, fr *frame, c *ssa.CallCommon, args []Val, pos token.Pos) []callOut {
			return one(st, x.e.uninterp(st, name, c, args))
		})
	}
	e.registerIOExterns(reg)
	e.registerSyncExterns(reg)
	e.registerCodecExterns(reg)
}

// uninterp models a deterministic library function as an uninterpreted function symbol.
func (e *Engine) uninterp(st *State, name string, c *ssa.CallCommon, args []Val) Val {
	rs := c.Signature().Results()
	if rs.Len() != 1 {
		return st.fresh("ext", rs)
	}
	return e.uninterpVals(st, name, args, rs.At(0).Type())
}

// uninterpVals: slices are passed as (header, backing array) so that the result depends on their content.
func (e *Engine) uninterpVals(st *State, name string, args []Val, rt types.Type) Val {
	// variadic call with a statically known number of arguments: pass the elements themselves
	if n := len(args); n > 0 && args[n-1].HasArr && args[n-1].ArrLen > 0 && args[n-1].ArrOff == 0 {
		last := args[n-1]
		et := last.Ty.Underlying().(*types.Slice).Elem()
		exp := append([]Val{}, args[:n-1]...)
		for i := 0; i < last.ArrLen; i++ {
			exp = append(exp, Val{T: st.readElem(et, last.ArrBase, fmt.Sprint(i)), Ty: et})
		}
		args = exp
	}
	var sorts, terms []string
	var lits []string
	allLit := true
	for _, a := range args {
		if a.T == "" && a.Addr == nil {
			return st.fresh("ext", rt)
		}
		so := e.sortOf(a.Ty)
		if so == "Slice" {
			et := a.Ty.Underlying().(*types.Slice).Elem()
			_, _, h := st.elemHeap(et)
			sorts = append(sorts, "Slice", "(Array Int "+e.sortOf(et)+")")
			terms = append(terms, a.T, "(select "+h+" (s_base "+a.T+"))")
			allLit = false
			continue
		}
		if so == "Iface" {
			return st.fresh("ext", rt)
		}
		sorts = append(sorts, so)
		terms = append(terms, st.term(a))
		if l, ok := e.litOf[st.term(a)]; ok && so == "Str" {
			lits = append(lits, l)
		} else {
			allLit = false
		}
	}
	key := name + "(" + strings.Join(sorts, ",") + ")"
	sym := e.d.symbol("ext_", key)
	e.extFuncs[name] = key
	e.d.add("extfn:"+sym, fmt.Sprintf("(declare-fun %s (%s) %s)", sym, strings.Join(sorts, " "), e.sortOf(rt)))
	// second-argument literals of evaluable two-string functions are remembered for ground facts
	if len(args) == 2 && len(sorts) == 2 && sorts[0] == "Str" && sorts[1] == "Str" {
		if l, ok := e.litOf[terms[1]]; ok {
			if e.evalExt[name] == nil {
				e.evalExt[name] = map[string]bool{}
			}
			e.evalExt[name][l] = true
			e.evalSym[name] = sym
		}
	}
	_ = allLit
	_ = lits
	v := Val{T: st.name("ext", e.sortOf(rt), app(sym, terms...)), Ty: rt}
	st.assume(e.typeInv(rt, v.T))
	return v
}

// groundFacts evaluates the real library function on string literals (conformance by execution).
func (e *Engine) groundFacts() string {
	var b strings.Builder
	var names []string
	for n := range e.evalExt {
		names = append(names, n)
	}
	sort.Strings(names)
	var lits []string
	for l := range e.strlits {
		lits = append(lits, l)
	}
	sort.Strings(lits)
	for _, n := range names {
		var seconds []string
		for l := range e.evalExt[n] {
			seconds = append(seconds, l)
		}
		sort.Strings(seconds)
		for _, s2 := range seconds {
			for _, s1 := range lits {
				var r string
				switch n {
				case "strings.ContainsAny":
					r = fmt.Sprint(strings.ContainsAny(s1, s2))
				case "strings.Contains":
					r = fmt.Sprint(strings.Contains(s1, s2))
				case "strings.HasPrefix":
					r = fmt.Sprint(strings.HasPrefix(s1, s2))
				case "strings.HasSuffix":
					r = fmt.Sprint(strings.HasSuffix(s1, s2))
				case "strings.Count":
					r = fmt.Sprint(strings.Count(s1, s2))
				default:
					continue
				}
				b.WriteString(fmt.Sprintf("(assert (= (%s %s %s) %s)) ; evaluated %s(%q,%q)\n", e.evalSym[n], e.strlits[s1], e.strlits[s2], r, n, s1, s2))
			}
		}
	}
	return b.String()
}
