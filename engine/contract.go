package main

// Contract files: comment-only Go files (//go:build verif) in the verified
// packages. Every line starting with "//@" belongs to the contract language.

import (
	"fmt"
	"go/types"
	"os"
	"path/filepath"
	"regexp"
	"strconv"
	"strings"
)

type Clause struct {
	Label string
	Src   string
	X     SExpr
	Props []string // optional clause-level property tags
}

type LoopSpec struct {
	Inv []Clause
	Dec *Clause
}

type Contract struct {
	Name     string // qualified short name, e.g. p9p.(*channel).maybeTruncate
	Pkg      *types.Package
	Props    []string
	Requires []Clause
	Ensures  []Clause
	Loops    map[int]*LoopSpec
	Modifies []string
	HasMod   bool
	Groups   []string
	Trusted  bool
	Inline   bool
	IsIface  bool
	NoPanic  bool // body may be checked only for panic freedom
	Sites    []Clause // site obligations: "site <matcher>: expr"
	RangeInv []Clause // invariant of a sync.Map.Range call in this function (over visited(k))
	Ats      []*AtHook // source-line hooks: assertions before / ghost assignments after a source line
	Logical  [][2]string // logical (universally quantified) variables of the contract: name, type
	Dyns     [][2]string // dynamic-type bindings at entry: access path, type (may mention $K)
	Foreach  []string    // the function is verified once per listed type, bound to $K
	PruneReturns bool // prune returns: a return path whose error result is not literally nil gets one longer refutation attempt before its postconditions are generated
	Prune    bool        // follow only feasible branches (solver check at each symbolic branch)
	ElemPtrs bool   // pointers to slice elements are terms; type tests on symbolic dynamic types are decided by refutation
	Timeout  int    // solver timeout (s) for this function's obligations when larger than the tier's
	Instance []string // with axiomatize: the axiom is the stated INSTANCE of the verified contract ("forall <binders>", "<param> := <expr>", "heap <id> := <base> <arr>, ...")
	Axiomatize string // lemma functions: "[group] name {triggers}" - the verified contract (forall parameters: requires ==> ensures) becomes an axiom of that group
	Recursion int      // inlined functions: self-recursion is inlined up to this call depth (statically bounded recursion)
	NoLockLedger bool  // the lock-discipline obligations are not part of this function's claim
	Dispatch bool      // interface contract: known implementations are dispatched to, the contract covers other dynamic types
	File     string
	Line     int
	Params   []string // for iface contracts: parameter names
	NoReturn bool
}

// AtHook: `at "<source text>" assert [label:] expr`  or  `at "<source text>" set ghost(keyexpr) := expr`
type AtHook struct {
	Pattern string
	Kind    string // assert | set | assume
	Clause  Clause
	Ghost   string
	KeyX    SExpr
	ValX    SExpr
	Src     string
}

type SpecFunc struct {
	Name   string
	Sym    string
	Params [][2]string
	PTypes []types.Type
	Ret    types.Type
	Body   SExpr
	Pkg    *types.Package
	Src    string
	Reads  []string // heaps the function depends on (extra leading arguments of the SMT function)
	RSorts []string
}

type GhostDecl struct {
	Zero bool // newly allocated objects start with the zero value of the ghost
	Name string
	Ty   types.Type
	Sort string
}

type ChanDecl struct {
	Name string
	Var  string
	Inv  Clause
	Pkg  *types.Package
}

type AxiomDecl struct {
	Group, Name string
	Clause
	Pkg   *types.Package
	Lemma bool
	HeapInst [][3]string // instance form of a lemma function's axiom: heap id, base, bound array variable
	ByFunc string  // proved by verifying this lemma function (no separate solver obligation)
	From  []string // lemmas: the groups it is proved from (default: its own group, without itself being available)
	term  string
}

var labelRe = regexp.MustCompile(`^([A-Za-z_][A-Za-z0-9_\-./#@]*):\s+(.*)$`)
var propRe = regexp.MustCompile(`^\[((?:C[0-9]+\s*)+)\]\s*(.*)$`)

var keywords = map[string]bool{"func": true, "iface": true, "property": true, "use": true, "requires": true, "ensures": true,
	"loop": true, "modifies": true, "trusted": true, "inline": true, "pure": true, "axiom": true, "lemma": true,
	"ghost": true, "smt": true, "let": true, "extern": true, "macro": true, "rangeinv": true, "at": true, "dispatch": true, "nolockledger": true, "recursion": true, "prune": true, "elemptrs": true, "timeout": true, "axiomatize": true, "instance": true, "logical": true, "dyn": true, "foreach": true, "chan": true, "site": true, "nopanic": true, "end": true, "note": true, "params": true}

func (e *Engine) loadContracts(dir string, pkg *types.Package) error {
	path := filepath.Join(dir, "verif_contracts.go")
	data, err := os.ReadFile(path)
	if err != nil {
		if os.IsNotExist(err) {
			return nil
		}
		return err
	}
	// join continuation lines
	type dl struct {
		text string
		line int
	}
	var dirs []dl
	for i, ln := range strings.Split(string(data), "\n") {
		t := strings.TrimSpace(ln)
		if !strings.HasPrefix(t, "//@") {
			continue
		}
		t = strings.TrimSpace(t[3:])
		if t == "" {
			continue
		}
		if i := strings.Index(t, " //"); i >= 0 && !strings.Contains(t[:i], "\"") {
			t = strings.TrimSpace(t[:i])
		}
		first := t
		if i := strings.IndexAny(t, " \t"); i >= 0 {
			first = t[:i]
		}
		if keywords[first] || len(dirs) == 0 {
			dirs = append(dirs, dl{t, i + 1})
		} else {
			dirs[len(dirs)-1].text += " " + t
		}
	}
	var cur *Contract
	pn := pkg.Name()
	var lets, macros [][2]string
	expand := func(s string) string {
		for i := len(lets) - 1; i >= 0; i-- {
			name := lets[i][0]
			if j := strings.Index(name, "("); j > 0 {
				// parameterised macro NAME(p): replace NAME(arg) by body[p := arg]; arg must not contain unbalanced parentheses
				base, param := name[:j], strings.TrimSuffix(name[j+1:], ")")
				for {
					k := regexp.MustCompile(`\b` + regexp.QuoteMeta(base) + `\(`).FindStringIndex(s)
					if k == nil {
						break
					}
					depth, e := 1, k[1]
					for e < len(s) && depth > 0 {
						if s[e] == '(' {
							depth++
						} else if s[e] == ')' {
							depth--
						}
						e++
					}
					arg := s[k[1] : e-1]
					body := regexp.MustCompile(`\b`+regexp.QuoteMeta(param)+`\b`).ReplaceAllLiteralString(lets[i][1], "("+arg+")")
					s = s[:k[0]] + "(" + body + ")" + s[e:]
				}
				continue
			}
			s = regexp.MustCompile(`\b`+regexp.QuoteMeta(name)+`\b`).ReplaceAllLiteralString(s, "("+lets[i][1]+")")
		}
		return s
	}
	mkClause := func(s string, line int) (Clause, error) {
		c := Clause{}
		s = expand(s)
		if m := propRe.FindStringSubmatch(s); m != nil {
			c.Props = strings.Fields(m[1])
			s = m[2]
		}
		if m := labelRe.FindStringSubmatch(s); m != nil && !strings.HasPrefix(m[2], ":") {
			c.Label = m[1]
			s = m[2]
		}
		c.Src = s
		x, err := parseSpec(s)
		if err != nil {
			return c, fmt.Errorf("%s:%d: %v", path, line, err)
		}
		c.X = x
		return c, nil
	}
	for _, d := range dirs {
		kw, rest := d.text, ""
		if i := strings.IndexAny(d.text, " \t"); i >= 0 {
			kw, rest = d.text[:i], strings.TrimSpace(d.text[i+1:])
		}
		switch kw {
		case "let":
			f := strings.SplitN(rest, "=", 2)
			if len(f) != 2 {
				return fmt.Errorf("%s:%d: bad let", path, d.line)
			}
			v := expand(strings.TrimSpace(f[1]))
			lets = append(lets, [2]string{strings.TrimSpace(f[0]), v})
		case "macro":
			f := strings.SplitN(rest, "=", 2)
			if len(f) != 2 {
				return fmt.Errorf("%s:%d: bad macro", path, d.line)
			}
			macros = append(macros, [2]string{strings.TrimSpace(f[0]), strings.TrimSpace(f[1])})
			lets = append([][2]string{}, macros...)
		case "extern":
			// declarative contract of a library function (trusted): name is "<import path>.<Func>" or "<import path>.(*T).Method"
			lets = append([][2]string{}, macros...)
			if e.contracts[rest] != nil {
				return fmt.Errorf("%s:%d: duplicate extern contract %s", path, d.line, rest)
			}
			cur = &Contract{Name: rest, Pkg: pkg, Loops: map[int]*LoopSpec{}, File: path, Line: d.line, Trusted: true}
			e.contracts[cur.Name] = cur
		case "func", "iface":
			lets = append([][2]string{}, macros...)
			cname := pn + "." + rest
			if strings.HasPrefix(rest, "=") {
				cname = rest[1:] // absolute name, e.g. an interface of another package: =fs.FileInfo.Name
			}
			cur = &Contract{Name: cname, Pkg: pkg, Loops: map[int]*LoopSpec{}, File: path, Line: d.line, IsIface: kw == "iface"}
			if kw == "iface" {
				e.ifaceContracts[cur.Name] = cur
			} else {
				if e.contracts[cur.Name] != nil {
					return fmt.Errorf("%s:%d: duplicate contract %s", path, d.line, cur.Name)
				}
				e.contracts[cur.Name] = cur
			}
		case "end":
			cur = nil
		case "property":
			if cur == nil {
				return fmt.Errorf("%s:%d: property outside func", path, d.line)
			}
			cur.Props = append(cur.Props, strings.Fields(rest)...)
		case "use":
			cur.Groups = append(cur.Groups, strings.Fields(rest)...)
		case "params":
			cur.Params = strings.Fields(rest)
		case "requires", "ensures":
			c, err := mkClause(rest, d.line)
			if err != nil {
				return err
			}
			if kw == "requires" {
				cur.Requires = append(cur.Requires, c)
			} else {
				cur.Ensures = append(cur.Ensures, c)
			}
		case "dispatch":
			cur.Dispatch = true
		case "nolockledger":
			cur.NoLockLedger = true
		case "prune":
			cur.Prune = true
			if strings.TrimSpace(rest) == "returns" {
				cur.PruneReturns = true
			}
		case "elemptrs":
			cur.ElemPtrs = true
		case "timeout":
			cur.Timeout, _ = strconv.Atoi(strings.TrimSpace(rest))
		case "axiomatize":
			cur.Axiomatize = strings.TrimSpace(rest)
		case "instance":
			cur.Instance = append(cur.Instance, strings.TrimSpace(rest))
		case "logical":
			fs := strings.SplitN(strings.TrimSpace(rest), " ", 2)
			if len(fs) != 2 {
				return fmt.Errorf("%s:%d: logical <name> <type>", path, d.line)
			}
			cur.Logical = append(cur.Logical, [2]string{fs[0], strings.TrimSpace(fs[1])})
		case "dyn":
			fs := strings.SplitN(strings.TrimSpace(rest), ":", 2)
			if len(fs) != 2 {
				return fmt.Errorf("%s:%d: dyn <path> : <type>", path, d.line)
			}
			cur.Dyns = append(cur.Dyns, [2]string{strings.TrimSpace(fs[0]), strings.TrimSpace(fs[1])})
		case "foreach":
			cur.Foreach = append(cur.Foreach, strings.Fields(rest)...)
		case "recursion":
			n, err := strconv.Atoi(strings.TrimSpace(rest))
			if err != nil {
				return fmt.Errorf("%s:%d: bad recursion depth", path, d.line)
			}
			cur.Recursion = n
		case "at":
			// at "<text>" assert label: expr   |   at "<text>" set g(key) := value
			m := regexp.MustCompile(`^"([^"]*)"\s+(assert|set|pre|assume)\s+(.*)$`).FindStringSubmatch(rest)
			if m == nil {
				return fmt.Errorf("%s:%d: bad at directive", path, d.line)
			}
			h := &AtHook{Pattern: m[1], Kind: m[2], Src: rest}
			if m[2] == "set" || m[2] == "pre" {
				mm := regexp.MustCompile(`^([A-Za-z_][A-Za-z0-9_]*)\((.*)\)\s*:=\s*(.*)$`).FindStringSubmatch(expand(m[3]))
				if mm == nil {
					return fmt.Errorf("%s:%d: bad ghost assignment", path, d.line)
				}
				h.Ghost = mm[1]
				kx, err := parseSpec(mm[2])
				if err != nil {
					return fmt.Errorf("%s:%d: %v", path, d.line, err)
				}
				vx, err := parseSpec(mm[3])
				if err != nil {
					return fmt.Errorf("%s:%d: %v", path, d.line, err)
				}
				h.KeyX, h.ValX = kx, vx
			} else {
				c, err := mkClause(m[3], d.line)
				if err != nil {
					return err
				}
				h.Clause = c
			}
			cur.Ats = append(cur.Ats, h)
		case "rangeinv":
			c, err := mkClause(rest, d.line)
			if err != nil {
				return err
			}
			cur.RangeInv = append(cur.RangeInv, c)
		case "site":
			c, err := mkClause(rest, d.line)
			if err != nil {
				return err
			}
			cur.Sites = append(cur.Sites, c)
		case "loop":
			f := strings.SplitN(rest, " ", 3)
			if len(f) < 3 {
				return fmt.Errorf("%s:%d: bad loop directive", path, d.line)
			}
			n, err := strconv.Atoi(f[0])
			if err != nil {
				return fmt.Errorf("%s:%d: bad loop ordinal", path, d.line)
			}
			ls := cur.Loops[n]
			if ls == nil {
				ls = &LoopSpec{}
				cur.Loops[n] = ls
			}
			c, err := mkClause(f[2], d.line)
			if err != nil {
				return err
			}
			switch f[1] {
			case "invariant":
				ls.Inv = append(ls.Inv, c)
			case "decreases":
				ls.Dec = &c
			default:
				return fmt.Errorf("%s:%d: bad loop directive %s", path, d.line, f[1])
			}
		case "modifies":
			cur.HasMod = true
			for _, m := range strings.Split(rest, ",") {
				m = strings.TrimSpace(m)
				if m != "" && m != "nothing" {
					cur.Modifies = append(cur.Modifies, m)
				}
			}
		case "trusted":
			cur.Trusted = true
		case "inline":
			cur.Inline = true
		case "nopanic":
			cur.NoPanic = true
		case "pure":
			// pure name(a T, b U) R [= expr]
			var reads []string
			if i := strings.Index(rest, " reads "); i > 0 {
				j := strings.Index(rest[i:], "=")
				end := len(rest)
				if j > 0 {
					end = i + j
				}
				reads = strings.Fields(rest[i+7 : end])
				rest = strings.TrimSpace(rest[:i]) + " " + rest[end:]
			}
			m := regexp.MustCompile(`^([A-Za-z_][A-Za-z0-9_]*)\((.*?)\)\s*([^=]*?)\s*(?:=\s*(.*))?$`).FindStringSubmatch(strings.TrimSpace(rest))
			if m == nil {
				return fmt.Errorf("%s:%d: bad pure declaration %q", path, d.line, rest)
			}
			sf := &SpecFunc{Name: m[1], Pkg: pkg, Src: rest, Reads: reads}
			for _, p := range strings.Split(m[2], ",") {
				p = strings.TrimSpace(p)
				if p == "" {
					continue
				}
				f := strings.SplitN(p, " ", 2)
				if len(f) != 2 {
					return fmt.Errorf("%s:%d: bad parameter %q", path, d.line, p)
				}
				sf.Params = append(sf.Params, [2]string{f[0], strings.TrimSpace(f[1])})
				t, err := e.resolveType(pkg, strings.TrimSpace(f[1]))
				if err != nil {
					return fmt.Errorf("%s:%d: %v", path, d.line, err)
				}
				sf.PTypes = append(sf.PTypes, t)
			}
			rt, err := e.resolveType(pkg, strings.TrimSpace(m[3]))
			if err != nil {
				return fmt.Errorf("%s:%d: %v", path, d.line, err)
			}
			sf.Ret = rt
			if m[4] != "" {
				x, err := parseSpec(m[4])
				if err != nil {
					return fmt.Errorf("%s:%d: %v", path, d.line, err)
				}
				sf.Body = x
			}
			e.specFuncs[sf.Name] = sf
			e.specOrder = append(e.specOrder, sf)
		case "axiom", "lemma":
			// axiom [group] name: expr
			grp := "core"
			var from []string
			if strings.HasPrefix(rest, "[") {
				i := strings.Index(rest, "]")
				grp = strings.TrimSpace(rest[1:i])
				rest = strings.TrimSpace(rest[i+1:])
				if j := strings.Index(grp, " from "); j > 0 {
					// lemma [g from g1 g2]: proved from the axioms of g1 g2, then available in g
					from = strings.Fields(grp[j+6:])
					grp = strings.TrimSpace(grp[:j])
				}
			}
			c, err := mkClause(rest, d.line)
			if err != nil {
				return err
			}
			if c.Label == "" {
				return fmt.Errorf("%s:%d: axiom needs a name", path, d.line)
			}
			if kw == "lemma" && len(c.Props) == 0 {
				return fmt.Errorf("%s:%d: lemma %s must name the property under which it is proved: lemma [group] {Cxx} name: ...", path, d.line, c.Label)
			}
			e.axiomDecls = append(e.axiomDecls, &AxiomDecl{Group: grp, Name: c.Label, Clause: c, Pkg: pkg, Lemma: kw == "lemma", From: from})
		case "ghost":
			f := strings.SplitN(rest, " ", 2)
			tn := strings.TrimSpace(f[1])
			zero := false
			if strings.HasSuffix(tn, " zero") {
				zero = true
				tn = strings.TrimSpace(strings.TrimSuffix(tn, " zero"))
			}
			t, err := e.resolveType(pkg, tn)
			if err != nil {
				return fmt.Errorf("%s:%d: %v", path, d.line, err)
			}
			e.ghosts[f[0]] = &GhostDecl{Name: f[0], Ty: t, Zero: zero}
		case "smt":
			f := strings.SplitN(rest, " ", 2)
			e.rawSMT = append(e.rawSMT, [2]string{f[0], f[1]})
		case "chan":
			// chan name: inv-expr over 'm'
			c, err := mkClause(rest, d.line)
			if err != nil {
				return err
			}
			key := pn + "." + c.Label
			if cur != nil {
				key = cur.Name + "/" + c.Label
			}
			e.chans[key] = &ChanDecl{Name: c.Label, Inv: c, Pkg: pkg}
		case "note":
		default:
			return fmt.Errorf("%s:%d: unknown directive %q", path, d.line, kw)
		}
	}
	return nil
}

func (e *Engine) resolveType(pkg *types.Package, s string) (types.Type, error) {
	switch s {
	case "Int", "int":
		return specInt, nil
	case "Bool", "bool":
		return specBool, nil
	case "Bytes":
		return specBytes, nil
	case "string", "Str":
		return types.Typ[types.String], nil
	case "Loc":
		return specInt, nil
	}
	if strings.HasPrefix(s, "Arr_") {
		// Arr:T - the contents of one backing array of elements T (a value of the element heap E:T at one base)
		el, err := e.resolveType(pkg, s[4:])
		if err != nil {
			return nil, err
		}
		k := typeKey(el)
		if a, ok := arrSorts[k]; ok {
			return a, nil
		}
		a := &SpecSort{Name: "Arr:" + k, Sort: "(Array Int " + e.sortOf(el) + ")", Elem: el}
		arrSorts[k] = a
		return a, nil
	}
	if strings.HasPrefix(s, "p9p.") && pkg.Name() == "p9p" {
		s = s[4:]
	}
	tv, err := types.Eval(e.fset, pkg, 0, s)
	if err == nil && tv.IsType() {
		return tv.Type, nil
	}
	// qualified name from an imported package
	if i := strings.Index(s, "."); i > 0 {
		prefix, name := "", s
		for strings.HasPrefix(name, "*") || strings.HasPrefix(name, "[]") {
			if name[0] == '*' {
				prefix += "*"
				name = name[1:]
			} else {
				prefix += "[]"
				name = name[2:]
			}
		}
		j := strings.Index(name, ".")
		pn, tn := name[:j], name[j+1:]
		for _, imp := range e.allTypesPkgs {
			if imp.Name() == pn {
				if o := imp.Scope().Lookup(tn); o != nil {
					if t, ok := o.(*types.TypeName); ok {
						var r types.Type = t.Type()
						for k := len(prefix) - 1; k >= 0; {
							if prefix[k] == '*' {
								r = types.NewPointer(r)
								k--
							} else {
								r = types.NewSlice(r)
								k -= 2
							}
						}
						return r, nil
					}
				}
			}
		}
	}
	return nil, fmt.Errorf("cannot resolve type %q: %v", s, err)
}
