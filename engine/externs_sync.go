package main

import (
	"fmt"
	"go/token"
	"go/types"

	"golang.org/x/tools/go/ssa"
)

// objKey yields an identity term for the object a pointer value designates (mutexes, sync.Maps embedded in structs).
func (e *Engine) objKey(st *State, v Val) string {
	e.needFaddr()
	if v.Addr != nil {
		a := v.Addr
		if a.Kind == ALocal {
			if l := st.promoted[a.Cell]; l != "" {
				a = &Addr{Kind: AObj, Loc: l, RootTy: st.cellTy[a.Cell], Path: a.Path}
			} else {
				loc := e.encodeAddr(st, &Addr{Kind: ALocal, Cell: a.Cell, RootTy: a.RootTy})
				a = &Addr{Kind: AObj, Loc: loc, RootTy: st.cellTy[a.Cell], Path: a.Path}
			}
		}
		if a.Kind == AObj {
			k := a.Loc
			for _, i := range a.Path {
				k = fmt.Sprintf("(faddr %s %d)", k, i)
			}
			return k
		}
		if a.Kind == AGlobal {
			k := e.d.symbol("gaddr_", a.Global.Pkg.Pkg.Name()+"."+a.Global.Name())
			e.d.add("gaddr:"+k, "(declare-const "+k+" Int)")
			for _, i := range a.Path {
				k = fmt.Sprintf("(faddr %s %d)", k, i)
			}
			return k
		}
	}
	return st.term(v)
}

func (e *Engine) needFaddr() {
	if e.faddrDone {
		return
	}
	e.faddrDone = true
	e.d.add("faddr", "(declare-fun faddr (Int Int) Int)\n(declare-fun faddr_obj (Int) Int)\n(declare-fun faddr_idx (Int) Int)")
	e.d.addAxiom("core", "faddr_inj", "(forall ((l Int) (i Int)) (! (and (= (faddr_obj (faddr l i)) l) (= (faddr_idx (faddr l i)) i) (< (faddr l i) 0)) :pattern ((faddr l i))))")
}

// mutexKeyOf: the identity of the mutex reachable from a pointer to a struct embedding sync.Mutex (used by specs: held(ref)).
func (e *Engine) mutexKeyOf(st *State, v Val) string {
	if p, ok := v.Ty.Underlying().(*types.Pointer); ok {
		if s, ok := p.Elem().Underlying().(*types.Struct); ok {
			for i := 0; i < s.NumFields(); i++ {
				f := s.Field(i)
				if f.Embedded() && typeKey(f.Type()) == "sync.Mutex" {
					e.needFaddr()
					return fmt.Sprintf("(faddr %s %d)", st.term(v), i)
				}
			}
		}
	}
	return e.objKey(st, v)
}

const lockCount = "gh:$lockcount"

func (st *State) lockCountTerm() string { return st.heapTerm(lockCount, "Int") }

func (e *Engine) registerSyncExterns(reg regFn) {
	errT := types.Universe.Lookup("error").Type()
	_ = errT
	reg("sync.(*Mutex).Lock", "Mutex.Lock: acquires the mutex (ledger held[m] := true). Obligations: m not already held by this thread (self-deadlock); no other lock held unless m belongs to an object allocated by this call and not yet published (no lock-order cycle)",
		func(x *Exec, st *State, fr *frame, c *ssa.CallCommon, args []Val, pos token.Pos) []callOut {
			e := x.e
			k := st.name("mk", "Int", e.objKey(st, args[0]))
			g := st.ghost("held")
			if x.c != nil && x.c.NoLockLedger {
				st.ghostWrite(g, k, "true")
				return one(st, Val{})
			}
			x.obligeAt(st, fr, "lock-self-deadlock", pos, "", not(st.ghostRead(g, k)))
			// blocking rule: either nothing is held, or the mutex is in an object allocated after function entry (unpublished)
			fresh := "false"
			if a := args[0].Addr; a != nil {
				loc := ""
				if a.Kind == AObj {
					loc = a.Loc
				} else if a.Kind == ALocal {
					loc = st.promoted[a.Cell]
				}
				if loc != "" {
					a0 := st.heap0[allocHeap]
					if a0 == "" {
						a0 = e.d.symbol("H0_", allocHeap)
					}
					fresh = "(not (select " + a0 + " " + loc + "))"
				}
			}
			x.obligeAt(st, fr, "lock-while-holding", pos, "", or("(= "+st.lockCountTerm()+" 0)", fresh))
			st.ghostWrite(g, k, "true")
			st.setHeap(lockCount, "Int", "(+ "+st.lockCountTerm()+" 1)")
			x.event(st, "lock", k)
			return one(st, Val{})
		}, "gh:held", lockCount)
	reg("sync.(*Mutex).Unlock", "Mutex.Unlock: releases the mutex; obligation: it is held by this thread",
		func(x *Exec, st *State, fr *frame, c *ssa.CallCommon, args []Val, pos token.Pos) []callOut {
			e := x.e
			k := st.name("mk", "Int", e.objKey(st, args[0]))
			g := st.ghost("held")
			if x.c != nil && x.c.NoLockLedger {
				st.ghostWrite(g, k, "false")
				return one(st, Val{})
			}
			x.obligeAt(st, fr, "unlock-not-held", pos, "", st.ghostRead(g, k))
			st.ghostWrite(g, k, "false")
			st.setHeap(lockCount, "Int", "(- "+st.lockCountTerm()+" 1)")
			x.event(st, "unlock", k)
			return one(st, Val{})
		}, "gh:held", lockCount)

	// ---- sync.Map as a ghost map  key(Iface) -> value(Iface)
	smHas := func(st *State) (string, string) {
		return "gh:$smhas", "(Array Int (Array Iface Bool))"
	}
	smVal := func(st *State) (string, string) {
		return "gh:$smval", "(Array Int (Array Iface Iface))"
	}
	get := func(st *State, m, k string) (has, val string) {
		hid, hs := smHas(st)
		vid, vs := smVal(st)
		return "(select (select " + st.heapTerm(hid, hs) + " " + m + ") " + k + ")", "(select (select " + st.heapTerm(vid, vs) + " " + m + ") " + k + ")"
	}
	put := func(st *State, m, k, v string, present bool) {
		hid, hs := smHas(st)
		vid, vs := smVal(st)
		h := st.heapTerm(hid, hs)
		b := "false"
		if present {
			b = "true"
		}
		st.setHeap(hid, hs, "(store "+h+" "+m+" (store (select "+h+" "+m+") "+k+" "+b+"))")
		if present {
			hv := st.heapTerm(vid, vs)
			st.setHeap(vid, vs, "(store "+hv+" "+m+" (store (select "+hv+" "+m+") "+k+" "+v+"))")
		}
	}
	anyT := types.NewInterfaceType(nil, nil)
	boolT := types.Typ[types.Bool]
	reg("sync.(*Map).Load", "sync.Map.Load: atomic lookup in the ghost map", func(x *Exec, st *State, fr *frame, c *ssa.CallCommon, args []Val, pos token.Pos) []callOut {
		m := st.name("sm", "Int", x.e.objKey(st, args[0]))
		has, val := get(st, m, args[1].T)
		hv := st.name("smh", "Bool", has)
		v := Val{T: st.name("smv", "Iface", ite(hv, val, "(mk_iface 0 0)")), Ty: anyT}
		return one(st, Val{Tuple: []Val{v, {T: hv, Ty: boolT}}})
	})
	reg("sync.(*Map).LoadOrStore", "sync.Map.LoadOrStore: atomic; stores only if absent", func(x *Exec, st *State, fr *frame, c *ssa.CallCommon, args []Val, pos token.Pos) []callOut {
		m := st.name("sm", "Int", x.e.objKey(st, args[0]))
		has, val := get(st, m, args[1].T)
		hv := st.name("smh", "Bool", has)
		actual := st.name("smv", "Iface", ite(hv, val, st.term(args[2])))
		put(st, m, args[1].T, actual, true)
		return one(st, Val{Tuple: []Val{{T: actual, Ty: anyT}, {T: hv, Ty: boolT}}})
	}, "gh:$smhas", "gh:$smval")
	reg("sync.(*Map).Store", "sync.Map.Store", func(x *Exec, st *State, fr *frame, c *ssa.CallCommon, args []Val, pos token.Pos) []callOut {
		m := st.name("sm", "Int", x.e.objKey(st, args[0]))
		put(st, m, args[1].T, st.term(args[2]), true)
		return one(st, Val{})
	}, "gh:$smhas", "gh:$smval")
	reg("sync.(*Map).LoadAndDelete", "sync.Map.LoadAndDelete: atomic", func(x *Exec, st *State, fr *frame, c *ssa.CallCommon, args []Val, pos token.Pos) []callOut {
		m := st.name("sm", "Int", x.e.objKey(st, args[0]))
		has, val := get(st, m, args[1].T)
		hv := st.name("smh", "Bool", has)
		v := Val{T: st.name("smv", "Iface", ite(hv, val, "(mk_iface 0 0)")), Ty: anyT}
		put(st, m, args[1].T, "", false)
		return one(st, Val{Tuple: []Val{v, {T: hv, Ty: boolT}}})
	}, "gh:$smhas")
	reg("sync.(*Map).Delete", "sync.Map.Delete", func(x *Exec, st *State, fr *frame, c *ssa.CallCommon, args []Val, pos token.Pos) []callOut {
		m := st.name("sm", "Int", x.e.objKey(st, args[0]))
		put(st, m, args[1].T, "", false)
		return one(st, Val{})
	}, "gh:$smhas")
	reg("sync.(*Map).Range", "sync.Map.Range(f): calls f once for every entry present, in arbitrary order, until f returns false; verified as a loop over an arbitrary set of visited keys with the invariant given by the caller's 'rangeinv' clauses",
		func(x *Exec, st *State, fr *frame, c *ssa.CallCommon, args []Val, pos token.Pos) []callOut {
			e := x.e
			m := st.name("sm", "Int", e.objKey(st, args[0]))
			f := args[1]
			if f.Clo == nil {
				x.fail(st, "range-func", "callback is not a closure literal")
				return nil
			}
			ct := e.contracts[e.shortName(fr.fn)]
			var invs []Clause
			if ct != nil {
				invs = ct.RangeInv
			}
			vsort := "(Array Iface Bool)"
			check := func(s *State, phase string) {
				ctx := x.localCtx(s, fr, nil)
				for i, cl := range invs {
					t, err := x.evalClause(s, ctx, cl)
					if err != nil {
						x.errs = append(x.errs, err.Error())
						t = "false"
					}
					x.oblige(s, fr.fn, "rangeinv-"+phase, clauseName("rangeinv", i, cl), t)
				}
			}
			assumeInv := func(s *State) {
				ctx := x.localCtx(s, fr, nil)
				for _, cl := range invs {
					if t, err := x.evalClause(s, ctx, cl); err == nil {
						s.assume(t)
					}
				}
			}
			// entry: nothing visited
			st.heapTerm("gh:$visited", vsort)
			st.setHeap("gh:$visited", vsort, "((as const (Array Iface Bool)) false)")
			check(st, "entry")
			ms := newModSet()
			ms.union(e.modset(f.Clo.Fn, nil))
			ms.heaps["gh:$visited"] = true
			// body: arbitrary iteration
			body := st.clone()
			body.havocSet(ms)
			assumeInv(body)
			V := body.heapTerm("gh:$visited", vsort)
			k := body.fresh("rk", types.NewInterfaceType(nil, nil))
			hid, hs := smHas(body)
			vid, vs := smVal(body)
			body.assume("(select (select " + body.heapTerm(hid, hs) + " " + m + ") " + k.T + ")")
			body.assume("(not (select " + V + " " + k.T + "))")
			v := Val{T: "(select (select " + body.heapTerm(vid, vs) + " " + m + ") " + k.T + ")", Ty: types.NewInterfaceType(nil, nil)}
			body.note("Range: one iteration")
			stops := false
			for _, o := range x.callFunc(body, fr.clone(), f.Clo.Fn, f.Clo.Bindings, []Val{k, v}, c, pos) {
				if o.val.T != "true" {
					stops = true
				}
				o.st.setHeap("gh:$visited", vsort, "(store "+V+" "+k.T+" true)")
				check(o.st, "preserve")
			}
			// after the loop
			st.havocSet(ms)
			assumeInv(st)
			if !stops {
				V2 := st.heapTerm("gh:$visited", vsort)
				st.assume("(forall ((k Iface)) (! (=> (select (select " + st.heapTerm(hid, hs) + " " + m + ") k) (select " + V2 + " k)) :pattern ((select " + V2 + " k))))")
			}
			st.note("Range: done")
			return one(st, Val{})
		}, "gh:$visited")
	reg("sync.(*Once).Do", "sync.Once.Do(f): runs f iff it has not run before (ghost oncedone); both cases explored", func(x *Exec, st *State, fr *frame, c *ssa.CallCommon, args []Val, pos token.Pos) []callOut {
		k := st.name("once", "Int", x.e.objKey(st, args[0]))
		g := st.ghost("oncedone")
		s2 := st.clone()
		s2.note("Once.Do: already done")
		s2.assumePC(s2.ghostRead(g, k))
		outs := []callOut{{st: s2, val: Val{}}}
		st.note("Once.Do: first call")
		st.assumePC(not(st.ghostRead(g, k)))
		st.ghostWrite(g, k, "true")
		f := args[1]
		if f.Clo != nil {
			for _, o := range x.callFunc(st, fr, f.Clo.Fn, f.Clo.Bindings, nil, c, pos) {
				outs = append(outs, callOut{st: o.st, val: Val{}})
			}
		} else {
			st.havocAll()
			outs = append(outs, callOut{st: st, val: Val{}})
		}
		return outs
	}, "gh:oncedone")
}
