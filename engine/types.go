package main

import (
	"sync"
	"regexp"
	"fmt"
	"go/token"
	"go/types"
	"math/big"
	"sort"
	"strings"

	"golang.org/x/tools/go/ssa"
)

// SpecSort is a pseudo Go type for specification-only sorts (mathematical
// integers, byte strings, ...).
type SpecSort struct {
	Name, Sort string
	Elem       types.Type // Arr:T only
}

var arrSorts = map[string]*SpecSort{}

func (s *SpecSort) Underlying() types.Type { return s }
func (s *SpecSort) String() string         { return "spec:" + s.Name }

var (
	specInt   = &SpecSort{Name: "int", Sort: "Int"}
	specBool  = &SpecSort{Name: "bool", Sort: "Bool"}
	specBytes = &SpecSort{Name: "Bytes", Sort: "Bytes"}
)

type StructInfo struct {
	Sort   string
	Ctor   string
	Fields []*types.Var
	Sel    []string // selector names
	FSort  []string
	Key    string // canonical go type string
}

type Engine struct {
	prog    *ssa.Program
	pkgs    map[string]*ssa.Package // by path
	mainPkg []*ssa.Package          // analysed packages (those in /repo)
	d       *Decls
	structs map[string]*StructInfo // by canonical type string
	tags    map[string]int         // type string -> tag
	tagTypes []types.Type
	boxed   map[string]bool
	strlits map[string]string // literal -> symbol
	fresh   int
	funcs   map[string]*ssa.Function // by short name, per package: "p9p.(*channel).maybeTruncate"
	contracts map[string]*Contract    // by short name
	ifaceContracts map[string]*Contract // "p9p.Codec.Size"
	specFuncs map[string]*SpecFunc
	ghosts  map[string]*GhostDecl
	chans   map[string]*ChanDecl
	unsupported []string
	notes   map[string]bool // trusted/extern facts used
	modsets map[*ssa.Function]*ModSet
	externs map[string]externFn
	tier    string
	implCache map[string][]types.Type
	heapSorts map[string]string
	trivMu    sync.Mutex
	trivNames map[string]bool // contract-level obligations that folded to true on some path
	loopCache map[*ssa.Function]map[*ssa.BasicBlock]*loopInfo
	usedExterns, usedContracts map[string]bool
	externMods map[string][]string
	pureExterns, inlineExtern map[string]bool
	ifaceIDs map[string]int
	typesCollected, strSubDone, winDone bool
	allTypesPkgs []*types.Package
	specOrder []*SpecFunc
	axiomDecls []*AxiomDecl
	eptrDone   bool
	atDeclared map[string]bool
	curElemPtrs bool
	curCase     string
	rawSMT [][2]string
	extFuncs map[string]string
	structCount int
	faddrDone bool
	sendSites map[string][]token.Pos
	srcCache map[string][]string
	hookHits map[string]bool
	feasN int
	signalChecked int
	globalConst map[string]string
	errGlobals []string
	allFuncs map[*ssa.Function]bool
	litOf map[string]string
	evalExt map[string]map[string]bool
	evalSym map[string]string
	fset *token.FileSet
}

var aliasRe = regexp.MustCompile(`\b(byte|rune)\b`)

// typeKey: canonical name of a type; byte/uint8 and rune/int32 are the same type and must get the same heaps and tags.
func typeKey(t types.Type) string {
	s := types.TypeString(t, func(p *types.Package) string { return p.Name() })
	if strings.Contains(s, "byte") || strings.Contains(s, "rune") {
		s = aliasRe.ReplaceAllStringFunc(s, func(m string) string {
			if m == "byte" {
				return "uint8"
			}
			return "int32"
		})
	}
	return s
}

func (e *Engine) freshName(prefix string) string {
	e.fresh++
	return fmt.Sprintf("%s!%d", prefix, e.fresh)
}

func isSpec(t types.Type) (*SpecSort, bool) {
	s, ok := t.(*SpecSort)
	return s, ok
}

// sortOf maps a Go type to its SMT sort, declaring datatypes on demand.
func (e *Engine) sortOf(t types.Type) string {
	if s, ok := isSpec(t); ok {
		if s.Sort == "Bytes" {
			e.needBytes()
		}
		return s.Sort
	}
	switch u := t.Underlying().(type) {
	case *types.Basic:
		switch {
		case u.Info()&types.IsBoolean != 0:
			return "Bool"
		case u.Info()&types.IsInteger != 0:
			return "Int"
		case u.Info()&types.IsString != 0:
			return "Str"
		case u.Kind() == types.UnsafePointer:
			return "Int"
		case u.Kind() == types.UntypedNil:
			return "Int"
		case u.Info()&types.IsFloat != 0:
			return "Real"
		}
	case *types.Pointer, *types.Map, *types.Chan, *types.Signature:
		return "Int"
	case *types.Slice:
		return "Slice"
	case *types.Interface:
		return "Iface"
	case *types.Struct:
		return e.structInfo(t).Sort
	case *types.Array:
		return "(Array Int " + e.sortOf(u.Elem()) + ")"
	case *types.Tuple:
		return "Tuple?"
	}
	panic("sortOf: unsupported type " + t.String())
}

func (e *Engine) structInfo(t types.Type) *StructInfo {
	key := typeKey(t)
	if si, ok := e.structs[key]; ok {
		return si
	}
	st := t.Underlying().(*types.Struct)
	si := &StructInfo{Key: key}
	si.Sort = e.d.symbol("S_", key)
	si.Ctor = e.d.symbol("mk_", key)
	e.structs[key] = si
	var fs []string
	for i := 0; i < st.NumFields(); i++ {
		f := st.Field(i)
		si.Fields = append(si.Fields, f)
		sel := e.d.symbol("f_", key+"."+f.Name())
		si.Sel = append(si.Sel, sel)
		so := e.sortOf(f.Type())
		si.FSort = append(si.FSort, so)
		fs = append(fs, fmt.Sprintf("(%s %s)", sel, so))
	}
	if len(fs) == 0 {
		e.d.add("struct:"+key, fmt.Sprintf("(declare-datatypes ((%s 0)) (((%s))))", si.Sort, si.Ctor))
	} else {
		e.d.add("struct:"+key, fmt.Sprintf("(declare-datatypes ((%s 0)) (((%s %s))))", si.Sort, si.Ctor, strings.Join(fs, " ")))
	}
	return si
}

func (si *StructInfo) fieldIndex(name string) int {
	for i, f := range si.Fields {
		if f.Name() == name {
			return i
		}
	}
	return -1
}

// intRange returns (lo, hi, bits, signed) for an integer type.
func intRange(t types.Type) (lo, hi *big.Int, bits uint, signed bool) {
	b, ok := t.Underlying().(*types.Basic)
	if !ok {
		return nil, nil, 0, false
	}
	switch b.Kind() {
	case types.Int8:
		bits, signed = 8, true
	case types.Int16:
		bits, signed = 16, true
	case types.Int32:
		bits, signed = 32, true
	case types.Int, types.Int64:
		bits, signed = 64, true
	case types.Uint8:
		bits = 8
	case types.Uint16:
		bits = 16
	case types.Uint32:
		bits = 32
	case types.Uint, types.Uint64, types.Uintptr:
		bits = 64
	default:
		return nil, nil, 0, false
	}
	if signed {
		lo = new(big.Int).Neg(pow2(bits - 1))
		hi = new(big.Int).Sub(pow2(bits-1), big.NewInt(1))
	} else {
		lo = big.NewInt(0)
		hi = new(big.Int).Sub(pow2(bits), big.NewInt(1))
	}
	return
}

// wrap reduces the mathematical integer term x into the range of type t.
func (e *Engine) wrap(t types.Type, x string) string {
	lo, _, bits, signed := intRange(t)
	if lo == nil {
		return x
	}
	if c, ok := constOf(x); ok && x != "" {
		// literal: fold
		r := new(big.Int).Mod(c, pow2(bits))
		if signed && r.Cmp(pow2(bits-1)) >= 0 {
			r.Sub(r, pow2(bits))
		}
		return bigTerm(r)
	}
	m := pow2(bits).String()
	if !signed {
		if len(x) < 70 {
			// the in-range case first: spares the solver the modulus in the common case
			return "(ite (and (<= 0 " + x + ") (< " + x + " " + m + ")) " + x + " (mod " + x + " " + m + "))"
		}
		return "(mod " + x + " " + m + ")"
	}
	h := pow2(bits - 1).String()
	return "(- (mod (+ " + x + " " + h + ") " + m + ") " + h + ")"
}

// wrapAddSub reduces x (the sum or difference of two values of type t) into the range of t without mod.
func (e *Engine) wrapAddSub(t types.Type, x string) string {
	lo, hi, bits, _ := intRange(t)
	if lo == nil {
		return x
	}
	m := pow2(bits).String()
	return "(ite (> " + x + " " + bigTerm(hi) + ") (- " + x + " " + m + ") (ite (< " + x + " " + bigTerm(lo) + ") (+ " + x + " " + m + ") " + x + "))"
}

// inRange yields the constraint that x is a value of integer type t.
func (e *Engine) inRange(t types.Type, x string) string {
	lo, hi, _, _ := intRange(t)
	if lo == nil {
		return "true"
	}
	return "(and (<= " + bigTerm(lo) + " " + x + ") (<= " + x + " " + bigTerm(hi) + "))"
}

// typeInv is the type invariant of a value x of Go type t (ranges, non-negative lengths).
func (e *Engine) typeInv(t types.Type, x string) string {
	if _, ok := isSpec(t); ok {
		return "true"
	}
	switch u := t.Underlying().(type) {
	case *types.Basic:
		if u.Info()&types.IsInteger != 0 {
			return e.inRange(t, x)
		}
	case *types.Slice:
		return and("(<= 0 (s_off "+x+"))", "(<= 0 (s_len "+x+"))", "(<= (s_len "+x+") (s_cap "+x+"))",
			implies("(= (s_base "+x+") 0)", "(= (s_cap "+x+") 0)"), "(<= 0 (s_base "+x+"))",
			"(<= (+ (s_off "+x+") (s_cap "+x+")) 9223372036854775807)")
	case *types.Struct:
		si := e.structInfo(t)
		var cs []string
		for i, f := range si.Fields {
			cs = append(cs, e.typeInv(f.Type(), app(si.Sel[i], x)))
		}
		return and(cs...)
	case *types.Pointer:
		if isStruct(u.Elem()) {
			// objects of different struct types live at different locations
			e.d.add("loctype", "(declare-fun loctype (Int) Int)")
			return fmt.Sprintf("(and (<= 0 %s) (=> (not (= %s 0)) (= (loctype %s) %d)))", x, x, x, e.typeTag(u.Elem()))
		}
		return "(<= 0 " + x + ")"
	case *types.Map, *types.Chan:
		return "(<= 0 " + x + ")"
	case *types.Interface:
		return and("(<= 0 (i_tag "+x+"))", implies("(= (i_tag "+x+") 0)", "(= (i_ref "+x+") 0)"))
	}
	return "true"
}

func (e *Engine) zero(t types.Type) string {
	if s, ok := isSpec(t); ok {
		switch s.Sort {
		case "Int":
			return "0"
		case "Bool":
			return "false"
		}
		panic("zero of spec sort " + s.Name)
	}
	switch u := t.Underlying().(type) {
	case *types.Basic:
		switch {
		case u.Info()&types.IsBoolean != 0:
			return "false"
		case u.Info()&types.IsInteger != 0:
			return "0"
		case u.Info()&types.IsString != 0:
			return e.strLit("")
		case u.Info()&types.IsFloat != 0:
			return "0.0"
		default:
			return "0"
		}
	case *types.Pointer, *types.Map, *types.Chan, *types.Signature:
		return "0"
	case *types.Slice:
		return "(mk_slice 0 0 0 0)"
	case *types.Interface:
		return "(mk_iface 0 0)"
	case *types.Struct:
		si := e.structInfo(t)
		var as []string
		for _, f := range si.Fields {
			as = append(as, e.zero(f.Type()))
		}
		return app(si.Ctor, as...)
	case *types.Array:
		return "((as const " + e.sortOf(t) + ") " + e.zero(u.Elem()) + ")"
	}
	panic("zero: " + t.String())
}

func (e *Engine) strLit(s string) string {
	if sym, ok := e.strlits[s]; ok {
		return sym
	}
	sym := e.d.symbol("str_", fmt.Sprintf("%d_%s", len(e.strlits), s))
	if len(sym) > 40 {
		sym = sym[:40] + fmt.Sprintf("_%d", len(e.strlits))
	}
	e.strlits[s] = sym
	if e.litOf == nil {
		e.litOf = map[string]string{}
	}
	e.litOf[sym] = s
	e.d.add("strlit:"+s, fmt.Sprintf("(declare-const %s Str)", sym))
	e.d.addAxiom("core", "slen_"+sym, fmt.Sprintf("(= (slen %s) %d)", sym, len(s)))
	return sym
}

// strDistinct emits pairwise distinctness of all string literals (call before printing).
func (e *Engine) strDistinct() string {
	if len(e.strlits) < 2 {
		return ""
	}
	var syms []string
	for _, s := range e.strlits {
		syms = append(syms, s)
	}
	sort.Strings(syms)
	return "(assert (distinct " + strings.Join(syms, " ") + "))\n"
}

// typeTag returns the runtime type tag for concrete type t.
func (e *Engine) typeTag(t types.Type) int {
	k := typeKey(t)
	if n, ok := e.tags[k]; ok {
		return n
	}
	n := len(e.tags) + 1
	e.tags[k] = n
	e.tagTypes = append(e.tagTypes, t)
	return n
}

// box converts a value of concrete type t into an interface payload (Int).
func (e *Engine) box(t types.Type, x string) string {
	so := e.sortOf(t)
	if so == "Int" {
		return x
	}
	k := typeKey(t)
	bx := e.d.symbol("box_", k)
	ub := e.d.symbol("unbox_", k)
	if !e.boxed[k] {
		e.boxed[k] = true
		e.d.add("box:"+k, fmt.Sprintf("(declare-fun %s (%s) Int)\n(declare-fun %s (Int) %s)", bx, so, ub, so))
		e.d.addAxiom("core", "unbox_"+k, fmt.Sprintf("(forall ((x %s)) (! (= (%s (%s x)) x) :pattern ((%s x))))", so, ub, bx, bx))
		e.d.addAxiom("core", "boxpos_"+k, fmt.Sprintf("(forall ((x %s)) (! (> (%s x) 0) :pattern ((%s x))))", so, bx, bx))
	}
	return app(bx, x)
}

func (e *Engine) unbox(t types.Type, ref string) string {
	so := e.sortOf(t)
	if so == "Int" {
		return ref
	}
	e.box(t, "0") // ensure declared (argument ignored)
	return app(e.d.symbol("unbox_", typeKey(t)), ref)
}

func (e *Engine) mkIface(t types.Type, x string) string {
	return fmt.Sprintf("(mk_iface %d %s)", e.typeTag(t), e.box(t, x))
}

func (e *Engine) corePrelude() {
	e.d.add("core", `(declare-sort Str 0)
(declare-fun slen (Str) Int)
(declare-datatypes ((Slice 0)) (((mk_slice (s_base Int) (s_off Int) (s_len Int) (s_cap Int)))))
(declare-datatypes ((Iface 0)) (((mk_iface (i_tag Int) (i_ref Int)))))
(declare-fun impl_ext (Int Int) Bool)
(declare-fun str_cat (Str Str) Str)
(declare-fun str_contains_any (Str Str) Bool)`)
	e.d.addAxiom("core", "slen_nonneg", "(forall ((s Str)) (! (and (>= (slen s) 0) (<= (slen s) 9223372036854775807)) :pattern ((slen s))))")
	e.d.addAxiom("core", "str_cat_len", "(forall ((a Str) (b Str)) (! (= (slen (str_cat a b)) (+ (slen a) (slen b))) :pattern ((str_cat a b))))")
}

var bytesDone bool

func (e *Engine) needBytes() {
	if bytesDone {
		return
	}
	bytesDone = true
	e.d.add("bytes", `(declare-sort Bytes 0)
(declare-fun blen (Bytes) Int)
(declare-fun bcat (Bytes Bytes) Bytes)
(declare-fun btake (Bytes Int) Bytes)
(declare-fun bdrop (Bytes Int) Bytes)
(declare-const bempty Bytes)
(declare-fun le1 (Int) Bytes)
(declare-fun le2 (Int) Bytes)
(declare-fun le4 (Int) Bytes)
(declare-fun le8 (Int) Bytes)
(declare-fun dec1 (Bytes) Int)
(declare-fun dec2 (Bytes) Int)
(declare-fun dec4 (Bytes) Int)
(declare-fun dec8 (Bytes) Int)
(declare-fun sbytes (Str) Bytes)
(declare-fun mkstr (Bytes) Str)`)
	ax := func(n, t string) { e.d.addAxiom("bytes", n, t) }
	ax("blen_nonneg", "(forall ((b Bytes)) (! (>= (blen b) 0) :pattern ((blen b))))")
	ax("blen_empty", "(= (blen bempty) 0)")
	ax("blen_cat", "(forall ((a Bytes) (b Bytes)) (! (= (blen (bcat a b)) (+ (blen a) (blen b))) :pattern ((bcat a b))))")
	ax("blen_take", "(forall ((a Bytes) (n Int)) (! (=> (and (<= 0 n) (<= n (blen a))) (= (blen (btake a n)) n)) :pattern ((btake a n))))")
	ax("blen_drop", "(forall ((a Bytes) (n Int)) (! (=> (and (<= 0 n) (<= n (blen a))) (= (blen (bdrop a n)) (- (blen a) n))) :pattern ((bdrop a n))))")
	// re-association generates Catalan-many terms on long concatenations: contracts whose specification is written in
	// the same (left-nested) shape as the code produces it switch it off with `use noassoc`
	e.d.addAxiom("bytes_assoc", "cat_assoc", "(forall ((a Bytes) (b Bytes) (c Bytes)) (! (= (bcat (bcat a b) c) (bcat a (bcat b c))) :pattern ((bcat (bcat a b) c)) :pattern ((bcat a (bcat b c)))))")
	// one-directional re-association (normalises towards right-nested concatenations; polynomially many terms)
	e.d.addAxiom("assoc_r", "cat_assoc_r", "(forall ((a Bytes) (b Bytes) (c Bytes)) (! (= (bcat (bcat a b) c) (bcat a (bcat b c))) :pattern ((bcat (bcat a b) c))))")
	ax("take_cat_l", "(forall ((a Bytes) (b Bytes) (n Int)) (! (=> (and (<= 0 n) (<= n (blen a))) (= (btake (bcat a b) n) (btake a n))) :pattern ((btake (bcat a b) n))))")
	ax("drop_cat_r", "(forall ((a Bytes) (b Bytes) (n Int)) (! (=> (and (<= (blen a) n) (<= n (+ (blen a) (blen b)))) (= (bdrop (bcat a b) n) (bdrop b (- n (blen a))))) :pattern ((bdrop (bcat a b) n))))")
	e.d.addAxiom("bytes_split", "take_split", "(forall ((a Bytes) (n Int) (m Int)) (! (=> (and (<= 0 n) (<= n m) (<= m (blen a))) (= (btake a m) (bcat (btake a n) (btake (bdrop a n) (- m n))))) :pattern ((btake a m) (bdrop a n))))")
	ax("drop_all", "(forall ((a Bytes)) (! (= (bdrop a (blen a)) bempty) :pattern ((bdrop a (blen a)))))")
	ax("cat_empty_r", "(forall ((a Bytes)) (! (= (bcat a bempty) a) :pattern ((bcat a bempty))))")
	ax("cat_empty_l", "(forall ((a Bytes)) (! (= (bcat bempty a) a) :pattern ((bcat bempty a))))")
	ax("take_zero", "(forall ((a Bytes)) (! (= (btake a 0) bempty) :pattern ((btake a 0))))")
	ax("take_all", "(forall ((a Bytes)) (! (= (btake a (blen a)) a) :pattern ((btake a (blen a)))))")
	ax("blen_zero", "(forall ((a Bytes)) (! (=> (= (blen a) 0) (= a bempty)) :pattern ((blen a))))")
	ax("take_cat", "(forall ((a Bytes) (b Bytes)) (! (= (btake (bcat a b) (blen a)) a) :pattern ((bcat a b))))")
	ax("drop_cat", "(forall ((a Bytes) (b Bytes)) (! (= (bdrop (bcat a b) (blen a)) b) :pattern ((bcat a b))))")
	ax("cat_take_drop", "(forall ((a Bytes) (n Int)) (! (=> (and (<= 0 n) (<= n (blen a))) (= (bcat (btake a n) (bdrop a n)) a)) :pattern ((btake a n)) :pattern ((bdrop a n))))")
	ax("drop_zero", "(forall ((a Bytes)) (! (= (bdrop a 0) a) :pattern ((bdrop a 0))))")
	ax("drop_drop", "(forall ((a Bytes) (n Int) (m Int)) (! (=> (and (<= 0 n) (<= 0 m) (<= (+ n m) (blen a))) (= (bdrop (bdrop a n) m) (bdrop a (+ n m)))) :pattern ((bdrop (bdrop a n) m))))")
	ax("take_take", "(forall ((a Bytes) (n Int) (m Int)) (! (=> (and (<= 0 m) (<= m n) (<= n (blen a))) (= (btake (btake a n) m) (btake a m))) :pattern ((btake (btake a n) m))))")
	for _, k := range []int{1, 2, 4, 8} {
		ax(fmt.Sprintf("blen_le%d", k), fmt.Sprintf("(forall ((x Int)) (! (= (blen (le%d x)) %d) :pattern ((le%d x))))", k, k, k))
		ax(fmt.Sprintf("dec_le%d", k), fmt.Sprintf("(forall ((x Int)) (! (=> (and (<= 0 x) (< x %s)) (= (dec%d (le%d x)) x)) :pattern ((le%d x))))", pow2(uint(8*k)).String(), k, k, k))
		ax(fmt.Sprintf("dec%d_range", k), fmt.Sprintf("(forall ((b Bytes)) (! (and (<= 0 (dec%d b)) (< (dec%d b) %s)) :pattern ((dec%d b))))", k, k, pow2(uint(8*k)).String(), k))
		ax(fmt.Sprintf("le_dec%d", k), fmt.Sprintf("(forall ((b Bytes)) (! (=> (= (blen b) %d) (= (le%d (dec%d b)) b)) :pattern ((dec%d b))))", k, k, k, k))
	}
	ax("sbytes_len", "(forall ((s Str)) (! (= (blen (sbytes s)) (slen s)) :pattern ((sbytes s))))")
	ax("mkstr_sbytes", "(forall ((s Str)) (! (= (mkstr (sbytes s)) s) :pattern ((sbytes s))))")
	ax("sbytes_mkstr", "(forall ((b Bytes)) (! (= (sbytes (mkstr b)) b) :pattern ((mkstr b))))")
}

// Pointers to slice elements as first-class terms (contracts that `use elemptrs`): eptr(base, index) is injective and
// disjoint from object locations.
func (e *Engine) needEptr() {
	if e.eptrDone {
		return
	}
	e.eptrDone = true
	e.d.add("eptr", "(declare-fun eptr (Int Int) Int)\n(declare-fun ebase (Int) Int)\n(declare-fun eidx (Int) Int)\n(declare-fun iselem (Int) Bool)")
	e.d.addAxiom("core", "eptr_inj", "(forall ((b Int) (i Int)) (! (and (= (ebase (eptr b i)) b) (= (eidx (eptr b i)) i) (iselem (eptr b i)) (> (eptr b i) 0)) :pattern ((eptr b i))))")
	e.d.addAxiom("core", "eptr_surj", "(forall ((p Int)) (! (=> (iselem p) (= p (eptr (ebase p) (eidx p)))) :pattern ((iselem p))))")
}
