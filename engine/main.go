package main

import (
	"encoding/json"
	"os/exec"
	"flag"
	"fmt"
	"go/token"
	"go/types"
	"os"
	"path/filepath"
	"regexp"
	"runtime"
	"sort"
	"strconv"
	"strings"
	"time"

	"golang.org/x/tools/go/packages"
	"golang.org/x/tools/go/ssa"
	"golang.org/x/tools/go/ssa/ssautil"
)

// repoDir is /repo; the thorough tier's self-test re-runs the engine on scratch copies (P9VC_REPO).
var repoDir = func() string {
	if d := os.Getenv("P9VC_REPO"); d != "" {
		return d
	}
	return "/repo"
}()
const verifDir = "/verif"

func newEngine() (*Engine, error) {
	os.Setenv("GOFLAGS", "-mod=mod")
	os.Setenv("GOPROXY", "off")
	os.Setenv("GOSUMDB", "off")
	os.Setenv("GOTOOLCHAIN", "local")
	fset := token.NewFileSet()
	cfg := &packages.Config{Mode: packages.LoadAllSyntax, Dir: repoDir, BuildFlags: []string{"-tags=verif"}, Fset: fset}
	pkgs, err := packages.Load(cfg, ".", "./ramfs", "./ufs")
	if err != nil {
		return nil, err
	}
	for _, p := range pkgs {
		if len(p.Errors) > 0 {
			return nil, fmt.Errorf("package %s: %v", p.PkgPath, p.Errors[0])
		}
	}
	prog, spkgs := ssautil.AllPackages(pkgs, ssa.NaiveForm|ssa.GlobalDebug)
	prog.Build()
	e := &Engine{atDeclared: map[string]bool{}, prog: prog, pkgs: map[string]*ssa.Package{}, d: newDecls(), structs: map[string]*StructInfo{}, tags: map[string]int{},
		boxed: map[string]bool{}, strlits: map[string]string{}, funcs: map[string]*ssa.Function{}, contracts: map[string]*Contract{},
		ifaceContracts: map[string]*Contract{}, specFuncs: map[string]*SpecFunc{}, ghosts: map[string]*GhostDecl{}, chans: map[string]*ChanDecl{},
		notes: map[string]bool{}, modsets: map[*ssa.Function]*ModSet{}, externs: map[string]externFn{}, heapSorts: map[string]string{}, trivNames: map[string]bool{},
		loopCache: map[*ssa.Function]map[*ssa.BasicBlock]*loopInfo{}, usedExterns: map[string]bool{}, usedContracts: map[string]bool{},
		externMods: map[string][]string{}, pureExterns: map[string]bool{}, inlineExtern: map[string]bool{}, ifaceIDs: map[string]int{},
		extFuncs: map[string]string{}, fset: fset, evalExt: map[string]map[string]bool{}, evalSym: map[string]string{}, globalConst: map[string]string{}, srcCache: map[string][]string{}, hookHits: map[string]bool{}, sendSites: map[string][]token.Pos{}}
	for _, p := range prog.AllPackages() {
		e.pkgs[p.Pkg.Path()] = p
		e.allTypesPkgs = append(e.allTypesPkgs, p.Pkg)
	}
	sort.Slice(e.allTypesPkgs, func(i, j int) bool { return e.allTypesPkgs[i].Path() < e.allTypesPkgs[j].Path() })
	e.mainPkg = spkgs
	e.corePrelude()
	e.collectTypes()
	e.allFuncs = ssautil.AllFunctions(prog)
	for fn := range e.allFuncs {
		if e.analysed(fn) {
			e.funcs[e.shortName(fn)] = fn
		}
	}
	e.registerExterns()
	for i, p := range pkgs {
		dir := repoDir
		if len(p.GoFiles) > 0 {
			dir = filepath.Dir(p.GoFiles[0])
		}
		if err := e.loadContracts(dir, spkgs[i].Pkg); err != nil {
			return nil, err
		}
	}
	if err := e.finishContracts(); err != nil {
		return nil, err
	}
	return e, nil
}

// finishContracts declares spec functions and axioms.
func (e *Engine) finishContracts() (err error) {
	defer func() {
		if r := recover(); r != nil {
			if se, ok := r.(specError); ok {
				err = fmt.Errorf("%s", se.msg)
				return
			}
			panic(r)
		}
	}()
	for _, g := range e.ghosts {
		g.Sort = e.sortOf(g.Ty)
	}
	for _, sf := range e.specOrder {
		e.declareSpecFunc(sf)
	}
	for _, r := range e.rawSMT {
		if strings.HasPrefix(r[1], "(assert") {
			e.d.axioms[r[0]] = append(e.d.axioms[r[0]], r[1])
		} else {
			e.d.add("raw:"+r[1], r[1])
		}
	}
	// lemma functions: a Go function (under the verif tag) whose body is the induction; its verified contract, universally
	// quantified over its parameters, is available as an axiom
	var cnames []string
	for n := range e.contracts {
		cnames = append(cnames, n)
	}
	sort.Strings(cnames)
	for _, n := range cnames {
		c := e.contracts[n]
		if c.Axiomatize == "" {
			continue
		}
		fn := e.funcs[n]
		m := regexp.MustCompile(`^\[([^\]]+)\]\s+(\S+)\s+(\{.*\})$`).FindStringSubmatch(c.Axiomatize)
		if fn == nil || m == nil {
			return fmt.Errorf("axiomatize %s: need a function and \"[group] name {triggers}\"", n)
		}
		if len(c.Props) == 0 {
			return fmt.Errorf("axiomatize %s: the lemma function must be verified under a property", n)
		}
		var binders, pre, post []string
		for _, p := range fn.Params {
			binders = append(binders, p.Name()+" "+typeKey(p.Type()))
		}
		for _, r := range c.Requires {
			pre = append(pre, "("+r.Src+")")
		}
		for _, r := range c.Ensures {
			post = append(post, "("+r.Src+")")
		}
		if len(pre) == 0 {
			pre = []string{"true"}
		}
		txt := "forall " + strings.Join(binders, ", ") + " :: " + m[3] + " " + strings.Join(pre, " && ") + " ==> " + strings.Join(post, " && ")
		var heapInst [][3]string // heap id, base, binder
		if len(c.Instance) > 0 {
			// The axiom is an instance of the verified statement (forall heaps, parameters: type invariants && requires ==> ensures):
			// each parameter is replaced by the given term over new bound variables, and a heap by a heap whose
			// arrays at the given bases are bound variables; the parameters' type invariants become hypotheses.
			body := strings.Join(pre, " && ") + " ==> " + strings.Join(post, " && ")
			var ibind string
			var guards []string
			for _, in := range c.Instance {
				switch {
				case strings.HasPrefix(in, "forall "):
					ibind = strings.TrimPrefix(in, "forall ")
				case strings.HasPrefix(in, "heap "):
					f := strings.SplitN(strings.TrimPrefix(in, "heap "), ":=", 2)
					if len(f) != 2 {
						return fmt.Errorf("axiomatize %s: instance heap <id> := <base> <binder>, ...", n)
					}
					for _, ba := range strings.Split(f[1], ",") {
						w := strings.Fields(ba)
						if len(w) != 2 {
							return fmt.Errorf("axiomatize %s: instance heap: %q", n, ba)
						}
						heapInst = append(heapInst, [3]string{strings.TrimSpace(f[0]), w[0], w[1]})
					}
				default:
					f := strings.SplitN(in, ":=", 2)
					if len(f) != 2 {
						return fmt.Errorf("axiomatize %s: instance <param> := <term>", n)
					}
					pn, repl := strings.TrimSpace(f[0]), strings.TrimSpace(f[1])
					var pt types.Type
					for _, p := range fn.Params {
						if p.Name() == pn {
							pt = p.Type()
						}
					}
					if pt == nil {
						return fmt.Errorf("axiomatize %s: instance: no parameter %s", n, pn)
					}
					body = regexp.MustCompile(`\b`+regexp.QuoteMeta(pn)+`\b`).ReplaceAllString(body, repl)
					guards = append(guards, fmt.Sprintf("typeinv(%q, %s)", typeKey(pt), repl))
				}
			}
			if ibind == "" || len(guards) != len(fn.Params) {
				return fmt.Errorf("axiomatize %s: the instance must bind new variables and give a term for every parameter", n)
			}
			txt = "forall " + ibind + " :: " + m[3] + " " + strings.Join(guards, " && ") + " && " + body
		}
		x, err := parseSpec(txt)
		if err != nil {
			return fmt.Errorf("axiomatize %s: %v in %s", n, err, txt)
		}
		e.axiomDecls = append(e.axiomDecls, &AxiomDecl{Group: m[1], Name: m[2], Clause: Clause{Label: m[2], Src: txt, X: x, Props: c.Props}, Pkg: c.Pkg, Lemma: true, From: []string{"<lemma function " + n + ">"}, ByFunc: n, HeapInst: heapInst})
	}
	for _, a := range e.axiomDecls {
		st := e.newState()
		st.noNames = true
		st.bind = &heapBind{}
		ctx := &SpecCtx{s: st, vars: map[string]Val{}, pkg: a.Pkg, what: "axiom " + a.Name}
		t := ctx.evalBool(a.X)
		for _, c := range st.cmds {
			if strings.HasPrefix(c, "(declare-const") {
				return fmt.Errorf("axiom %s depends on program state", a.Name)
			}
		}
		for _, hi := range a.HeapInst {
			// instance of a lemma: the bound heap is (store ... (store K base arr) ...) for the bound array variables
			for i, id := range st.bind.ids {
				if id != hi[0] {
					continue
				}
				name := "hb_" + sanitize(id)
				k := "K_" + sanitize(id)
				e.d.add("const:"+k, "(declare-const "+k+" "+st.bind.sorts[i]+")")
				inst := k
				for _, h2 := range a.HeapInst {
					if h2[0] != id {
						continue
					}
					bv := regexp.MustCompile(`q_` + regexp.QuoteMeta(h2[2]) + `![0-9]+`).FindString(t)
					if bv == "" {
						return fmt.Errorf("axiom %s: instance heap: no bound variable %s", a.Name, h2[2])
					}
					inst = "(store " + inst + " " + h2[1] + " " + bv + ")"
				}
				t = regexp.MustCompile(regexp.QuoteMeta(name)+`\b`).ReplaceAllLiteralString(t, inst)
				st.bind.ids = append(st.bind.ids[:i:i], st.bind.ids[i+1:]...)
				st.bind.sorts = append(st.bind.sorts[:i:i], st.bind.sorts[i+1:]...)
				break
			}
		}
		if len(st.bind.ids) > 0 {
			// the axiom holds in every heap: the heaps it reads are universally quantified with its other variables
			var hb []string
			for i, id := range st.bind.ids {
				hb = append(hb, "(hb_"+sanitize(id)+" "+st.bind.sorts[i]+")")
			}
			if strings.HasPrefix(t, "(forall (") {
				t = "(forall (" + strings.Join(hb, " ") + " " + t[len("(forall ("):]
			} else {
				t = "(forall (" + strings.Join(hb, " ") + ") " + t + ")"
			}
		}
		a.term = t
		if !a.Lemma {
			e.d.addAxiom(a.Group, a.Name, t)
		} else if len(a.From) > 0 {
			// proved (lemmaObligations) from other groups; available as a fact of its own group
			e.d.addAxiom(a.Group, a.Name, t)
		}
	}
	return nil
}

type FuncReport struct {
	Name        string
	Obligations []*Obligation
	Errors      []string
	Paths       int
	Trivial     int
	Blocking    []*blockSite
	FeasCalls   int
}

func (e *Engine) verifyFunc(name string) *FuncReport {
	rep := &FuncReport{Name: name}
	fn := e.funcs[funcOf(name)] // "f#variant": a second contract of function f (verified on its own, never used at call sites)
	c := e.contracts[name]
	if fn == nil {
		rep.Errors = append(rep.Errors, "function under contract not found in /repo: "+name)
		rep.Obligations = append(rep.Obligations, &Obligation{Name: name + "/exists", Func: name, Kind: "exists", Goal: "false", Props: c.Props, Status: "failed", Structural: true,
			Output: "the function named by the contract no longer exists"})
		return rep
	}
	cases := c.Foreach
	if len(cases) == 0 {
		cases = []string{""}
	}
	if only := os.Getenv("P9VC_CASE"); only != "" {
		cases = strings.Fields(only) // debugging aid: restrict a foreach to some cases
	}
	var x *Exec
	var allObls []*Obligation
	covered, trivial := 0, 0
	for _, cs := range cases {
	x = &Exec{e: e, root: fn, c: c, siteN: map[string]int{}, sitePos: map[string]int{}, maxSteps: 400000, caseName: cs}
	func() {
		defer func() {
			if r := recover(); r != nil {
				buf := make([]byte, 4096)
				buf = buf[:runtime.Stack(buf, false)]
				rep.Errors = append(rep.Errors, fmt.Sprintf("engine panic: %v\n%s", r, buf))
				x.obls = append(x.obls, &Obligation{Name: name + "/engine", Func: name, Kind: "engine", Goal: "false", Props: c.Props, Status: "failed", Structural: true, Output: fmt.Sprint(r)})
			}
		}()
		x.verify()
	}()
	if x.covered == 0 && len(x.errs) == 0 && !c.NoReturn && cs != "" {
		x.obls = append(x.obls, &Obligation{Name: name + "/cover[" + cs + "]", Func: name, Kind: "cover", Goal: "false", Props: c.Props, Status: "failed", Structural: true,
			Output: "no return path was reached for this case: vacuous verification"})
	}
	allObls = append(allObls, x.obls...)
	rep.Errors = append(rep.Errors, x.errs...)
	covered += x.covered
	trivial += x.trivial
	rep.FeasCalls += x.feasCalls
	}
	x.obls, x.errs, x.covered, x.trivial = allObls, nil, covered, trivial
	if fn.Blocks != nil {
		nl := len(e.loopsOf(fn))
		for ord := range c.Loops {
			if ord > nl {
				x.obls = append(x.obls, &Obligation{Name: fmt.Sprintf("%s/loop%d-missing", name, ord), Func: name, Kind: "hook", Goal: "false", Props: c.Props, Status: "failed", Structural: true,
					Output: fmt.Sprintf("the contract has an invariant for loop %d but the function has only %d loops", ord, nl)})
			}
		}
	}
	for _, h := range c.Ats {
		if !e.hookHits[c.Name+"|"+h.Src] {
			x.obls = append(x.obls, &Obligation{Name: name + "/at-hook-unmatched@" + h.Pattern, Func: name, Kind: "hook", Goal: "false", Props: c.Props, Status: "failed", Structural: true,
				Output: "no executed source line contains the text of this `at` hook: " + h.Src})
		}
	}
	for _, cl := range c.Sites {
		if !e.hookHits[c.Name+"|site "+cl.Label] {
			x.obls = append(x.obls, &Obligation{Name: name + "/site-unmatched@" + cl.Label, Func: name, Kind: "hook", Goal: "false", Props: c.Props, Status: "failed", Structural: true,
				Output: "no send site matches this `site` clause"})
		}
	}
	rep.Obligations = x.obls
	rep.Errors = append(rep.Errors, x.errs...)
	rep.Paths = x.covered
	rep.Trivial = x.trivial
	for _, b := range x.blocking {
		rep.Blocking = append(rep.Blocking, b)
	}
	if x.covered == 0 && len(rep.Errors) == 0 && !c.NoReturn {
		rep.Obligations = append(rep.Obligations, &Obligation{Name: name + "/cover", Func: name, Kind: "cover", Goal: "false", Props: c.Props, Status: "failed", Structural: true,
			Output: "no return path was reached: vacuous verification"})
	}
	return rep
}

func hasProp(ps []string, id string) bool {
	for _, p := range ps {
		if p == id {
			return true
		}
	}
	return false
}

type knownFinding struct {
	Prop, Pattern, What string
	re                  *regexp.Regexp
	Fixed               bool
}

func loadFindings() []knownFinding {
	data, err := os.ReadFile(filepath.Join(verifDir, "known_findings.txt"))
	if err != nil {
		return nil
	}
	var res []knownFinding
	for _, ln := range strings.Split(string(data), "\n") {
		ln = strings.TrimSpace(ln)
		if ln == "" || strings.HasPrefix(ln, "#") {
			continue
		}
		if strings.HasPrefix(ln, "fixed:") {
			continue // fixed entries suppress nothing
		}
		// finding: property=C07 obligation=<regex> :: what fails
		m := regexp.MustCompile(`^finding:\s+property=(C\d+)\s+obligation=(\S+)\s+::\s+(.*)$`).FindStringSubmatch(ln)
		if m == nil {
			continue
		}
		re, err := regexp.Compile("^" + m[2] + "$")
		if err != nil {
			continue
		}
		res = append(res, knownFinding{Prop: m[1], Pattern: m[2], What: m[3], re: re})
	}
	return res
}

type Evidence struct {
	PropertyID  string                 `json:"property_id"`
	Tier        string                 `json:"tier"`
	Seed        int                    `json:"seed"`
	Level       string                 `json:"level"`
	Coverage    map[string]interface{} `json:"coverage"`
	Assumptions []string               `json:"assumptions"`
	WallS       float64                `json:"wall_s"`
	Violations  int                    `json:"violations"`
}

func baseName(o string) string {
	if i := strings.Index(o, "~"); i >= 0 {
		return o[:i]
	}
	return o
}

func (e *Engine) checkProperty(id, tier string, seed int, only string) int {
	start := time.Now()
	var names []string
	for n, c := range e.contracts {
		if hasProp(c.Props, id) && (only == "" || strings.Contains(n, only)) {
			if c.Trusted {
				// contract assumed, body not verified: reported under trusted_base
				e.usedContracts[n] = true
				continue
			}
			names = append(names, n)
		}
	}
	sort.Strings(names)
	if len(names) == 0 {
		fmt.Printf("ENGINE-FAULT property=%s: no function under contract\n", id)
		return 2
	}
	timeout := 20
	if tier == "thorough" {
		timeout = 60
	}
	if t := os.Getenv("P9VC_TIMEOUT"); t != "" {
		timeout, _ = strconv.Atoi(t)
	}
	var reps []*FuncReport
	var obls []*Obligation
	if jobs := e.planJobs(names); len(jobs) > 1 && os.Getenv("P9VC_FORK") != "" {
		// many independent per-kind verifications: explore and solve them in worker processes, merge the results
		reps = e.runJobs(id, jobs, timeout)
		if reps == nil {
			fmt.Printf("ENGINE-FAULT property=%s: a worker process failed\n", id)
			return 2
		}
		for _, r := range reps {
			obls = append(obls, r.Obligations...)
		}
	} else {
		for _, n := range names {
			r := e.verifyFunc(n)
			reps = append(reps, r)
			obls = append(obls, r.Obligations...)
		}
	}
	// lemmas tagged with this property
	obls = append(obls, e.lemmaObligations(id)...)
	obls = append(obls, e.structuralObligations(id, reps)...)
	outDir := filepath.Join(outBase(), id)
	os.RemoveAll(outDir)
	var pending []*Obligation
	for _, o := range obls {
		if o.Status == "" {
			pending = append(pending, o)
		}
	}
	e.solveAll(pending, outDir, timeout, 5) // 5 obligations x 3 solvers: no more solver processes than cores (16)
	if os.Getenv("P9VC_SLOW") != "" {
		for _, o := range obls {
			if o.Time > 3 {
				fmt.Fprintf(os.Stderr, "slow %.1fs %s %s\n", o.Time, o.Name, o.Output)
			}
		}
	}
	// group by site
	type site struct {
		name             string
		total, ok        int
		failed           []*Obligation
		time             float64
		solver           map[string]int
	}
	sites := map[string]*site{}
	var order []string
	solverCount := map[string]int{}
	var solverTime float64
	for _, o := range obls {
		s := sites[o.Name]
		if s == nil {
			s = &site{name: o.Name, solver: map[string]int{}}
			sites[o.Name] = s
			order = append(order, o.Name)
		}
		s.total++
		s.time += o.Time
		solverTime += o.Time
		if o.Status == "discharged" {
			s.ok++
			solverCount[o.Solver]++
		} else {
			s.failed = append(s.failed, o)
		}
	}
	findings := loadFindings()
	violations := 0
	var known []string
	var failedNames []string
	for _, n := range order {
		s := sites[n]
		if len(s.failed) == 0 {
			continue
		}
		matched := false
		for _, f := range findings {
			if f.Prop == id && f.re.MatchString(n) {
				matched = true
				msg := fmt.Sprintf("KNOWN-FINDING: property=%s %s: %s", id, n, f.What)
				known = append(known, msg)
				break
			}
		}
		if matched {
			continue
		}
		violations++
		failedNames = append(failedNames, n)
		rp := e.writeReplay(id, s.failed[0], len(s.failed), s.total)
		suffix := " no-failing-input-found"
		if confirmed := e.tryReplay(id, s.failed[0], rp); confirmed {
			suffix = ""
		}
		fmt.Printf("VIOLATION property=%s replay=%s obligation=%s%s\n", id, rp, n, suffix)
	}
	seenK := map[string]bool{}
	for _, k := range known {
		if !seenK[k] {
			seenK[k] = true
			fmt.Println(k)
		}
	}
	for _, r := range reps {
		for _, er := range r.Errors {
			fmt.Printf("note: %s: %s\n", r.Name, er)
		}
	}
	// evidence
	nSites, okSites := len(order), 0
	var samples []interface{}
	for _, n := range order {
		s := sites[n]
		if len(s.failed) == 0 {
			okSites++
		}
		if len(samples) < 12 && (len(s.failed) > 0 || len(samples) < 8) {
			sm := map[string]interface{}{"obligation": n, "path_instances": s.total, "discharged_instances": s.ok, "solver_time_s": round3(s.time)}
			if len(s.failed) > 0 {
				sm["status"] = "FAILED"
				sm["solver_output"] = s.failed[0].Output
			} else {
				sm["status"] = "discharged"
			}
			samples = append(samples, sm)
		}
	}
	var trusted []string
	for n := range e.usedExterns {
		trusted = append(trusted, "extern contract (trusted): "+n+" — "+externDoc[n])
	}
	for n := range e.usedContracts {
		c := e.contracts[n]
		if c == nil {
			c = e.ifaceContracts[n]
		}
		if c != nil && (c.Trusted || c.IsIface) {
			trusted = append(trusted, "assumed contract (not verified against an implementation here): "+n)
		} else if c != nil && !hasProp(c.Props, id) {
			trusted = append(trusted, "callee contract used, verified under "+strings.Join(c.Props, ",")+": "+n)
		}
	}
	for _, a := range e.axiomDecls {
		if !a.Lemma {
			trusted = append(trusted, "axiom ["+a.Group+"] "+a.Name+": "+a.Src)
		}
	}
	for n := range e.notes {
		trusted = append(trusted, "abstraction: "+n)
	}
	sort.Strings(trusted)
	trusted = append([]string{
		"go/ssa (x/tools v0.29.0, naive form) agrees with cmd/compile on the semantics of the translated functions",
		"the p9vc VC generator (/verif/engine) and the SMT solvers z3 4.8.12, z3 5.1.0, cvc5 1.0",
		"goroutine interference on shared memory is not modelled (thread-modular; channel invariants are the only inter-thread interface)",
	}, trusted...)
	var fnames []map[string]interface{}
	totalPaths := 0
	for _, r := range reps {
		fnames = append(fnames, map[string]interface{}{"function": r.Name, "return_paths": r.Paths, "obligation_instances": len(r.Obligations), "trivially_true_checks": r.Trivial})
		totalPaths += r.Paths
	}
	level := e.levelFor(id)
	if violations > 0 || len(known) > 0 {
		if level == "proof" {
			level = "other"
		}
	}
	cov := map[string]interface{}{
		"obligations": nSites, "discharged": okSites,
		"obligation_instances": len(obls), "functions_under_contract": fnames,
		"checker_cmd":     fmt.Sprintf("bin/p9vc check %s --tier %s  (per obligation: z3 4.8.12 for 2 s, then z3 4.8.12 | z3 5.1.0 | both again with smt.random_seed=7 | cvc5 1.0, %d s each or the contract's own budget if larger, first definite answer)", id, tier, timeout),
		"trusted_base":    trusted,
		"samples":         samples,
		"solver_time_s":   round3(solverTime),
		"by_solver":       solverCount,
		"known_failing":   known,
		"failed":          failedNames,
		"return_paths":    totalPaths,
		"explanation":     e.explain(id, nSites, okSites, len(known), violations),
		"evaluations":     len(obls),
		"distinct_nontrivial": nSites,
		"rule":            "one evaluation = one SMT query (obligation instance on one symbolic path); distinct = distinct obligation sites (function/kind/label); trivially true checks are not counted",
		"structural_obligations": e.structCount,
	}
	ev := Evidence{PropertyID: id, Tier: tier, Seed: seed, Level: level, Coverage: cov, WallS: round3(time.Since(start).Seconds()), Violations: violations,
		Assumptions: trusted}
	if os.Getenv("P9VC_NOEVIDENCE") == "" {
		os.MkdirAll(filepath.Join(verifDir, "evidence"), 0755)
		data, _ := json.MarshalIndent(ev, "", " ")
		os.WriteFile(filepath.Join(verifDir, "evidence", id+".json"), data, 0644)
	}
	fmt.Printf("property %s: %d/%d obligation sites discharged (%d instances, %d functions, %d return paths), %d known findings, %d violations, %.1fs\n",
		id, okSites, nSites, len(obls), len(reps), totalPaths, len(seenK), violations, time.Since(start).Seconds())
	// vacuity / expected obligations
	if msg := e.checkExpected(id, order); msg != "" {
		fmt.Println(msg)
		return 1
	}
	if violations > 0 {
		return 1
	}
	return 0
}

func round3(f float64) float64 { return float64(int(f*1000)) / 1000 }

func (e *Engine) explain(id string, n, ok, known, viol int) string {
	return fmt.Sprintf("Contract-based deductive verification of the real code: the functions under contract are translated from go/ssa (naive form) of /repo's working tree on this run, "+
		"symbolically executed path by path with loops cut at invariants and callees replaced by their contracts; every panic site, precondition, invariant and postcondition is an SMT obligation. "+
		"%d of %d obligation sites discharged (unsat) on this run; %d sites are recorded known findings; %d unexplained failures.", ok, n, known, viol)
}

func (e *Engine) levelFor(id string) string {
	// the level written is the one claimed in MANIFEST.json (downgraded to "other" by the caller when something failed)
	data, err := os.ReadFile(filepath.Join(verifDir, "MANIFEST.json"))
	if err == nil {
		var m struct {
			Checks []struct {
				PropertyID   string `json:"property_id"`
				LevelClaimed struct {
					Category string `json:"category"`
				} `json:"level_claimed"`
			} `json:"checks"`
		}
		if json.Unmarshal(data, &m) == nil {
			for _, c := range m.Checks {
				if c.PropertyID == id && c.LevelClaimed.Category != "" {
					return c.LevelClaimed.Category
				}
			}
		}
	}
	return "proof"
}

var propLevels = map[string]string{}

func (e *Engine) writeReplay(id string, o *Obligation, nfailed, total int) string {
	dir := filepath.Join(outBase(), "replay")
	os.MkdirAll(dir, 0755)
	p := filepath.Join(dir, id+"_"+sanitize(o.Name)+".json")
	r := map[string]interface{}{
		"property": id, "failed_obligation": o.Name, "function": o.Func, "kind": o.Kind, "source": o.Pos,
		"failing_path_instances": nfailed, "path_instances": total, "goal": o.Goal, "solver_output": o.Output,
		"model": truncate(o.Model, 20000), "path_decisions": o.Trace, "smt_file": o.File,
	}
	data, _ := json.MarshalIndent(r, "", " ")
	os.WriteFile(p, data, 0644)
	return p
}

func truncate(s string, n int) string {
	if len(s) > n {
		return s[:n] + "...(truncated)"
	}
	return s
}

// checkExpected guards against vacuity: obligations recorded when the property was claimed must be generated again.
func (e *Engine) checkExpected(id string, have []string) string {
	data, err := os.ReadFile(filepath.Join(verifDir, "expected_obligations.json"))
	if err != nil {
		return ""
	}
	var exp map[string][]string
	if json.Unmarshal(data, &exp) != nil {
		return ""
	}
	hs := map[string]bool{}
	for _, h := range have {
		hs[stripOrd(h)] = true
	}
	for h := range e.trivNames {
		hs[stripOrd(h)] = true
	}
	var missing []string
	for _, w := range exp[id] {
		if !hs[w] {
			missing = append(missing, w)
		}
	}
	if len(missing) == 0 {
		return ""
	}
	dir := filepath.Join(verifDir, "out", "replay")
	os.MkdirAll(dir, 0755)
	p := filepath.Join(dir, id+"_missing_obligations.json")
	d, _ := json.MarshalIndent(map[string]interface{}{"property": id, "failed_obligation": "expected obligations no longer generated", "missing": missing}, "", " ")
	os.WriteFile(p, d, 0644)
	return fmt.Sprintf("VIOLATION property=%s replay=%s obligation=missing:%s no-failing-input-found", id, p, missing[0])
}

var ordRe = regexp.MustCompile(`#\d+$`)

// stripOrd removes the per-function site ordinal, so that an added or removed site of the same kind does not rename
// the obligations that follow it.
func stripOrd(s string) string { return ordRe.ReplaceAllString(s, "") }

func main() {
	if len(os.Args) < 2 {
		fmt.Println("usage: p9vc check <id> [--tier quick|thorough] | func <name> | list | expected")
		os.Exit(2)
	}
	cmd := os.Args[1]
	fs := flag.NewFlagSet(cmd, flag.ExitOnError)
	tier := fs.String("tier", "", "quick or thorough")
	only := fs.String("only", "", "restrict to functions containing this string")
	verbose := fs.Bool("v", false, "verbose")
	var pos []string
	args := os.Args[2:]
	for len(args) > 0 && !strings.HasPrefix(args[0], "-") {
		pos = append(pos, args[0])
		args = args[1:]
	}
	fs.Parse(args)
	if *tier == "" {
		*tier = os.Getenv("VERIF_TIER")
		if *tier == "" {
			*tier = "quick"
		}
	}
	seed, _ := strconv.Atoi(os.Getenv("VERIF_SEED"))
	e, err := newEngine()
	if err != nil {
		fmt.Println("ENGINE-FAULT:", err)
		os.Exit(2)
	}
	e.tier = *tier
	switch cmd {
	case "worker":
		// internal: worker <jobfile> <outfile> <timeout>
		os.Exit(e.workerMain(pos[0], pos[1], pos[2]))
	case "check":
		rc := e.checkProperty(pos[0], *tier, seed, *only)
		if rc == 0 && *tier == "thorough" && os.Getenv("P9VC_REPO") == "" {
			rc = runCanaries(pos[0])
		}
		os.Exit(rc)
	case "func":
		rep := e.verifyFunc(pos[0])
		os.RemoveAll(filepath.Join(verifDir, "out", "func"))
		e.solveAll(rep.Obligations, filepath.Join(verifDir, "out", "func"), 10, 8)
		for _, o := range rep.Obligations {
			if o.Status != "discharged" || *verbose {
				fmt.Printf("%-10s %-70s %s %.2fs %s\n", o.Status, o.Name, o.Pos, o.Time, o.Output)
				if o.Status != "discharged" && *verbose {
					fmt.Println("   path:", strings.Join(o.Trace, " / "))
					fmt.Println("   goal:", o.Goal)
					fmt.Println("   file:", o.File)
				}
			}
		}
		for _, er := range rep.Errors {
			fmt.Println("error:", er)
		}
		for n := range e.notes {
			fmt.Println("note:", n)
		}
		fmt.Printf("%s: %d obligations, %d return paths, %d trivial\n", pos[0], len(rep.Obligations), rep.Paths, rep.Trivial)
	case "lemmas":
		obls := e.lemmaObligations(pos[0])
		os.RemoveAll(filepath.Join(verifDir, "out", "func"))
		e.solveAll(obls, filepath.Join(verifDir, "out", "func"), 10, 8)
		for _, o := range obls {
			if o.Status != "discharged" || *verbose {
				fmt.Printf("%-10s %-70s %.2fs %s\n", o.Status, o.Name, o.Time, o.Output)
			}
		}
		fmt.Printf("%d lemmas\n", len(obls))
	case "expected":
		// (re)writes /verif/expected_obligations.json from the current tree: run after a property is claimed
		exp := map[string][]string{}
		if data, err := os.ReadFile(filepath.Join(verifDir, "expected_obligations.json")); err == nil {
			json.Unmarshal(data, &exp)
		}
		for _, id := range pos {
			var names []string
			for n, c := range e.contracts {
				if hasProp(c.Props, id) && !c.Trusted {
					names = append(names, n)
				}
			}
			sort.Strings(names)
			seen := map[string]bool{}
			var list []string
			for _, n := range names {
				for _, o := range e.verifyFunc(n).Obligations {
					k := stripOrd(o.Name)
					// only contract-level obligations of the function itself are pinned: panic sites and obligations
					// attributed to inlined helpers may legitimately come and go with harmless refactoring
					contractLevel := map[string]bool{"post": true, "inv-entry": true, "inv-preserve": true, "site": true, "at": true, "send-inv": true,
						"rangeinv-entry": true, "rangeinv-preserve": true, "decreases": true, "pre-go": true}[o.Kind]
					if !seen[k] && contractLevel && strings.HasPrefix(o.Name, o.Func+"/") {
						seen[k] = true
						list = append(list, k)
					}
				}
			}
			sort.Strings(list)
			exp[id] = list
			fmt.Printf("%s: %d expected obligation names\n", id, len(list))
		}
		data, _ := json.MarshalIndent(exp, "", " ")
		os.WriteFile(filepath.Join(verifDir, "expected_obligations.json"), data, 0644)
	case "modset":
		e.debugModset(pos[0])
	case "list":
		var ns []string
		for n, c := range e.contracts {
			ns = append(ns, n+"  "+strings.Join(c.Props, ","))
		}
		sort.Strings(ns)
		fmt.Println(strings.Join(ns, "\n"))
	case "funcs":
		var ns []string
		for n := range e.funcs {
			ns = append(ns, n)
		}
		sort.Strings(ns)
		fmt.Println(strings.Join(ns, "\n"))
	default:
		fmt.Println("unknown command", cmd)
		os.Exit(2)
	}
}

var _ = types.Universe

// runCanaries (thorough tier): every confirmed seeded change recorded for this property is applied to a scratch copy
// of /repo (outside /repo and /verif, removed afterwards) and the quick check is re-run on the copy; it must report a
// violation there. A canary that is not detected means the machinery has lost strength: exit 2 (machinery fault).
func runCanaries(id string) int {
	dirs, _ := filepath.Glob(filepath.Join(verifDir, "seeded", "*"))
	sort.Strings(dirs)
	missed, ran := 0, 0
	for _, d := range dirs {
		data, err := os.ReadFile(filepath.Join(d, "meta.json"))
		if err != nil {
			continue
		}
		var meta struct {
			Property string `json:"property"`
			Name     string `json:"name"`
			Expected *bool  `json:"expected_detected"`
			Canary   *bool  `json:"canary"`
		}
		if json.Unmarshal(data, &meta) != nil || meta.Property != id {
			continue
		}
		if meta.Canary != nil && !*meta.Canary {
			continue // kept for the record (DESIGN.md §9), not part of the self-test (running time)
		}
		scratch, err := os.MkdirTemp("", "p9vc_canary_")
		if err != nil {
			continue
		}
		cp := exec.Command("bash", "-c", fmt.Sprintf("cp -a /repo/. %s/ && cd %s && rm -rf .git && git init -q . >/dev/null 2>&1; patch -p1 -s < %s/patch.diff", scratch, scratch, d))
		if out, err := cp.CombinedOutput(); err != nil {
			fmt.Printf("CANARY %s: patch does not apply to the current tree, skipped (%s)\n", meta.Name, strings.TrimSpace(firstLines(string(out), 1)))
			os.RemoveAll(scratch)
			continue
		}
		cmd := exec.Command(os.Args[0], "check", id, "--tier", "quick")
		cmd.Env = append(os.Environ(), "P9VC_REPO="+scratch, "P9VC_NOEVIDENCE=1")
		out, _ := cmd.CombinedOutput()
		os.RemoveAll(scratch)
		ran++
		detected := ""
		for _, ln := range strings.Split(string(out), "\n") {
			if strings.HasPrefix(ln, "VIOLATION") {
				if i := strings.Index(ln, "obligation="); i >= 0 {
					detected = strings.Fields(ln[i+11:])[0]
				}
				break
			}
		}
		switch {
		case detected != "":
			fmt.Printf("CANARY %s: detected by %s\n", meta.Name, detected)
		case meta.Expected != nil && !*meta.Expected:
			fmt.Printf("CANARY %s: not detected (recorded as out of reach, see DESIGN.md)\n", meta.Name)
		default:
			fmt.Printf("CANARY %s: NOT DETECTED - the check has lost strength\n", meta.Name)
			missed++
		}
	}
	fmt.Printf("self-test: %d canaries run, %d missed\n", ran, missed)
	// record the self-test in the evidence file written by the main run
	evp := filepath.Join(verifDir, "evidence", id+".json")
	if data, err := os.ReadFile(evp); err == nil {
		var ev map[string]interface{}
		if json.Unmarshal(data, &ev) == nil {
			if cov, ok := ev["coverage"].(map[string]interface{}); ok {
				cov["selftest_canaries_run"] = ran
				cov["selftest_canaries_missed"] = missed
				cov["selftest_rule"] = "each confirmed seeded change for this property (seeded/*/patch.diff) applied to a scratch copy of /repo must make the quick check report a violation"
			}
			if out, err := json.MarshalIndent(ev, "", " "); err == nil {
				os.WriteFile(evp, out, 0644)
			}
		}
	}
	if missed > 0 {
		return 2
	}
	return 0
}

func outBase() string {
	if os.Getenv("P9VC_REPO") != "" {
		return filepath.Join(verifDir, "out", "canary")
	}
	return filepath.Join(verifDir, "out")
}

func funcOf(n string) string {
	if i := strings.Index(n, "#"); i > 0 {
		return n[:i]
	}
	return n
}
