package main

import (
	"fmt"
	"go/constant"
	"go/types"
	"math/big"
	"strings"
)

// SpecCtx evaluates specification expressions against a symbolic state.
type SpecCtx struct {
	s      *State
	vars   map[string]Val
	lookup func(name string) (Val, bool)
	old    map[string]string // heap for old(); nil = current
	entry  map[string]string // heap at the first arrival at the loop head (loop invariants)
	entryCells map[int]Val
	otherHeap bool // heap-reading spec functions take a second set of bound heaps (axioms)
	readsOld bool // heap-reading spec functions take the old heaps (inold(...))
	pkg    *types.Package
	what   string // for error messages
	trig   bool   // evaluating a trigger term: no boolean structure allowed
}

type specError struct{ msg string }

func (c *SpecCtx) fail(format string, a ...interface{}) {
	panic(specError{fmt.Sprintf("spec %s: ", c.what) + fmt.Sprintf(format, a...)})
}

func (c *SpecCtx) child() *SpecCtx {
	n := *c
	n.vars = make(map[string]Val, len(c.vars)+2)
	for k, v := range c.vars {
		n.vars[k] = v
	}
	return &n
}

func isIntTy(t types.Type) bool {
	if s, ok := isSpec(t); ok {
		return s.Sort == "Int"
	}
	b, ok := t.Underlying().(*types.Basic)
	return ok && b.Info()&types.IsInteger != 0
}
func isBoolTy(t types.Type) bool {
	if s, ok := isSpec(t); ok {
		return s.Sort == "Bool"
	}
	b, ok := t.Underlying().(*types.Basic)
	return ok && b.Info()&types.IsBoolean != 0
}
func isStringTy(t types.Type) bool {
	if _, ok := isSpec(t); ok {
		return false
	}
	b, ok := t.Underlying().(*types.Basic)
	return ok && b.Info()&types.IsString != 0
}

func parseIntLit(s string) *big.Int {
	b := new(big.Int)
	if _, ok := b.SetString(s, 0); !ok {
		panic(specError{"bad integer literal " + s})
	}
	return b
}

func (c *SpecCtx) evalBool(x SExpr) string {
	v := c.eval(x)
	if !isBoolTy(v.Ty) {
		c.fail("expected boolean, got %v", v.Ty)
	}
	return v.T
}

func (c *SpecCtx) evalInt(x SExpr) string {
	v := c.eval(x)
	if !isIntTy(v.Ty) {
		c.fail("expected integer, got %v", v.Ty)
	}
	return v.T
}

func bval(t string) Val { return Val{T: t, Ty: specBool} }
func ival(t string) Val { return Val{T: t, Ty: specInt} }

// snapshot captures the current heap versions together with the laziness bookkeeping (epoch, stale counters).
func (s *State) snapshot() map[string]string {
	h := make(map[string]string, len(s.heap)+len(s.stale)+1)
	for k, v := range s.heap {
		h[k] = v
	}
	h["$epoch"] = fmt.Sprint(s.epoch)
	for k, v := range s.stale {
		h["$stale:"+k] = fmt.Sprint(v)
	}
	return h
}

// withHeap evaluates f with the state's heap temporarily replaced by snapshot h.
func (c *SpecCtx) withHeap(h map[string]string, f func() Val) Val {
	s := c.s
	saved, savedEpoch, savedStale := s.heap, s.epoch, s.stale
	tmp := make(map[string]string, len(h))
	stale := map[string]int{}
	epoch := 0
	for k, v := range h {
		switch {
		case k == "$epoch":
			fmt.Sscan(v, &epoch)
		case strings.HasPrefix(k, "$stale:"):
			n := 0
			fmt.Sscan(v, &n)
			stale[k[7:]] = n
		default:
			tmp[k] = v
		}
	}
	s.heap, s.epoch, s.stale = tmp, epoch, stale
	savedShadow := s.shadow
	s.shadow = nil // structurally known contents describe the current heap only
	defer func() { s.shadow = savedShadow }()
	savedOld := c.old
	c.old = nil
	defer func() {
		for k, v := range tmp {
			if _, ok := h[k]; !ok {
				h[k] = v
				// a heap first mentioned inside old(): if it was never touched since the snapshot, the current version is the same
				if _, ok2 := saved[k]; !ok2 && epoch == savedEpoch && stale[k] == savedStale[k] {
					saved[k] = v
				}
			}
		}
		s.heap, s.epoch, s.stale = saved, savedEpoch, savedStale
		c.old = savedOld
	}()
	return f()
}

// oldHeapTerm returns the version of heap id in the old() snapshot (the current one if there is no snapshot).
func (c *SpecCtx) oldHeapTerm(id, sort string) string {
	if c.old == nil {
		return c.s.heapTerm(id, sort)
	}
	if o, ok := c.old[id]; ok {
		return o
	}
	return c.withHeap(c.old, func() Val { return Val{T: c.s.heapTerm(id, sort)} }).T
}

func (c *SpecCtx) eval(x SExpr) Val {
	e := c.s.e
	switch x := x.(type) {
	case *SLit:
		switch x.Kind {
		case "int":
			return ival(bigTerm(parseIntLit(x.Val)))
		case "bool":
			return bval(x.Val)
		case "str":
			return Val{T: e.strLit(x.Val), Ty: types.Typ[types.String]}
		case "nil":
			return Val{T: "nil", Ty: types.Typ[types.UntypedNil]}
		}
	case *SIdent:
		return c.ident(x.Name)
	case *SUnary:
		switch x.Op {
		case "!":
			return bval(not(c.evalBool(x.X)))
		case "-":
			return ival("(- " + c.evalInt(x.X) + ")")
		case "*":
			v := c.eval(x.X)
			return c.deref(v)
		case "&":
			f, ok := x.X.(*SField)
			if !ok {
				c.fail("& needs a field expression")
			}
			v := c.eval(f.X)
			p, ok := v.Ty.Underlying().(*types.Pointer)
			if !ok {
				c.fail("&x.f needs a pointer x")
			}
			path, fty := findField(p.Elem(), f.Name)
			if path == nil {
				c.fail("no field %s", f.Name)
			}
			if v.Addr != nil {
				a := *v.Addr
				a.Path = append(append([]int{}, a.Path...), path...)
				return Val{Ty: types.NewPointer(fty), Addr: &a}
			}
			return Val{Ty: types.NewPointer(fty), Addr: &Addr{Kind: AObj, Loc: v.T, RootTy: p.Elem(), Path: path}}
		}
	case *SCond:
		cnd := c.evalBool(x.C)
		a, b := c.eval(x.A), c.eval(x.B)
		a, b = c.unify(a, b)
		return Val{T: ite(cnd, a.T, b.T), Ty: a.Ty}
	case *SBinary:
		return c.binary(x)
	case *SField:
		// package-qualified constant (p9p.NOFID)
		if id, ok := x.X.(*SIdent); ok {
			if _, bound := c.vars[id.Name]; !bound {
				for _, p := range e.allTypesPkgs {
					if p.Name() == id.Name {
						if o := p.Scope().Lookup(x.Name); o != nil {
							return c.object(o)
						}
					}
				}
			}
		}
		v := c.eval(x.X)
		return c.field(v, x.Name)
	case *SIndex:
		v := c.eval(x.X)
		i := c.eval(x.I)
		return c.index(v, i)
	case *SSliceE:
		v := c.eval(x.X)
		lo, hi := "0", ""
		if x.Lo != nil {
			lo = c.evalInt(x.Lo)
		}
		if sl, ok := v.Ty.Underlying().(*types.Slice); ok {
			_ = sl
			if x.Hi != nil {
				hi = c.evalInt(x.Hi)
			} else {
				hi = "(s_len " + v.T + ")"
			}
			return Val{T: fmt.Sprintf("(mk_slice (s_base %s) (+ (s_off %s) %s) (- %s %s) (- (s_cap %s) %s))", v.T, v.T, lo, hi, lo, v.T, lo), Ty: v.Ty}
		}
		if isStringTy(v.Ty) {
			if x.Hi != nil {
				hi = c.evalInt(x.Hi)
			} else {
				hi = "(slen " + v.T + ")"
			}
			e.needStrSub()
			return Val{T: "(str_sub " + v.T + " " + lo + " " + hi + ")", Ty: v.Ty}
		}
		c.fail("slice expression on %v", v.Ty)
	case *SAssert:
		v := c.eval(x.X)
		t, err := e.resolveType(c.pkg, x.Typ)
		if err != nil {
			c.fail("%v", err)
		}
		if _, isI := t.Underlying().(*types.Interface); isI {
			return Val{T: v.T, Ty: t}
		}
		return Val{T: e.unbox(t, "(i_ref "+v.T+")"), Ty: t}
	case *SQuant:
		return c.quant(x)
	case *SCall:
		return c.call(x)
	}
	c.fail("cannot evaluate %T", x)
	return Val{}
}

func (c *SpecCtx) object(o types.Object) Val {
	e := c.s.e
	switch o := o.(type) {
	case *types.Const:
		return c.constVal(o.Val(), o.Type())
	case *types.Var:
		// package-level variable
		if o.Parent() == o.Pkg().Scope() {
			if sp := e.pkgs[o.Pkg().Path()]; sp != nil {
				if g, ok := sp.Members[o.Name()].(interface{ Type() types.Type }); ok {
					_ = g
				}
			}
			return c.s.globalVal(o)
		}
	}
	c.fail("unsupported object %v", o)
	return Val{}
}

func (c *SpecCtx) constVal(v constant.Value, t types.Type) Val {
	e := c.s.e
	switch v.Kind() {
	case constant.Int:
		b, _ := new(big.Int).SetString(v.ExactString(), 10)
		ty := t
		if bt, ok := t.(*types.Basic); ok && bt.Info()&types.IsUntyped != 0 {
			ty = specInt
		}
		return Val{T: bigTerm(b), Ty: ty}
	case constant.Bool:
		return bval(fmt.Sprint(constant.BoolVal(v)))
	case constant.String:
		return Val{T: e.strLit(constant.StringVal(v)), Ty: types.Typ[types.String]}
	}
	c.fail("unsupported constant %v", v)
	return Val{}
}

func (c *SpecCtx) ident(name string) Val {
	if v, ok := c.vars[name]; ok {
		return v
	}
	if name == "bempty" {
		c.s.e.needBytes()
		c.s.groups["bytes"] = true
		return Val{T: "bempty", Ty: specBytes}
	}
	if c.lookup != nil {
		if v, ok := c.lookup(name); ok {
			return v
		}
	}
	if c.pkg != nil {
		if o := c.pkg.Scope().Lookup(name); o != nil {
			return c.object(o)
		}
	}
	c.fail("unknown identifier %q", name)
	return Val{}
}

func (c *SpecCtx) deref(v Val) Val {
	s := c.s
	p, ok := v.Ty.Underlying().(*types.Pointer)
	if !ok {
		c.fail("dereference of non-pointer %v", v.Ty)
	}
	if v.Addr != nil {
		return s.load(v.Addr)
	}
	return s.load(&Addr{Kind: AObj, Loc: v.T, RootTy: p.Elem()})
}

// findField resolves a (possibly promoted) field name to an index path.
func findField(t types.Type, name string) ([]int, types.Type) {
	st, ok := t.Underlying().(*types.Struct)
	if !ok {
		return nil, nil
	}
	for i := 0; i < st.NumFields(); i++ {
		if st.Field(i).Name() == name {
			return []int{i}, st.Field(i).Type()
		}
	}
	for i := 0; i < st.NumFields(); i++ {
		if st.Field(i).Embedded() {
			ft := st.Field(i).Type()
			if p, ok := ft.Underlying().(*types.Pointer); ok {
				_ = p
				continue
			}
			if path, ty := findField(ft, name); path != nil {
				return append([]int{i}, path...), ty
			}
		}
	}
	return nil, nil
}

func (c *SpecCtx) field(v Val, name string) Val {
	s := c.s
	if p, ok := v.Ty.Underlying().(*types.Pointer); ok {
		path, _ := findField(p.Elem(), name)
		if path == nil {
			c.fail("no field %s in %v", name, p.Elem())
		}
		if v.Addr != nil {
			a := *v.Addr
			a.Path = append(append([]int{}, a.Path...), path...)
			return s.load(&a)
		}
		return s.load(&Addr{Kind: AObj, Loc: v.T, RootTy: p.Elem(), Path: path})
	}
	if isStruct(v.Ty) {
		path, _ := findField(v.Ty, name)
		if path == nil {
			c.fail("no field %s in %v", name, v.Ty)
		}
		if len(path) == 1 {
			if sv, ok := v.Sub[path[0]]; ok && sv.T != "" {
				return sv
			}
		}
		t, ty := s.project(v.T, v.Ty, path)
		return Val{T: t, Ty: ty}
	}
	c.fail("field %s of non-struct %v", name, v.Ty)
	return Val{}
}

func (c *SpecCtx) index(v, i Val) Val {
	s := c.s
	switch u := v.Ty.Underlying().(type) {
	case *types.Slice:
		ev := Val{T: s.readElem(u.Elem(), "(s_base "+v.T+")", "(+ (s_off "+v.T+") "+i.T+")"), Ty: u.Elem()}
		if !strings.Contains(ev.T, "q_") && !strings.Contains(ev.T, "hb_") && !s.noNames {
			// like a load in the program: memory is well typed (ground terms only; bound variables cannot be constrained)
			s.assume(s.e.typeInv(u.Elem(), ev.T))
		}
		return ev
	case *types.Map:
		return Val{T: s.mapVal(v.Ty, v.T, i.T), Ty: u.Elem()}
	case *types.Array:
		return Val{T: "(select " + v.T + " " + i.T + ")", Ty: u.Elem()}
	}
	c.fail("index of %v", v.Ty)
	return Val{}
}

// unify makes nil literals take the type of the other operand.
func (c *SpecCtx) unify(a, b Val) (Val, Val) {
	isNil := func(v Val) bool {
		bt, ok := v.Ty.(*types.Basic)
		return ok && bt.Kind() == types.UntypedNil
	}
	if isNil(a) && !isNil(b) {
		a = Val{T: c.s.e.zero(b.Ty), Ty: b.Ty}
	}
	if isNil(b) && !isNil(a) {
		b = Val{T: c.s.e.zero(a.Ty), Ty: a.Ty}
	}
	return a, b
}

func (c *SpecCtx) binary(x *SBinary) Val {
	switch x.Op {
	case "&&":
		return bval(and(c.evalBool(x.X), c.evalBool(x.Y)))
	case "||":
		return bval(or(c.evalBool(x.X), c.evalBool(x.Y)))
	case "==>":
		return bval(implies(c.evalBool(x.X), c.evalBool(x.Y)))
	case "<==>":
		return bval(eq(c.evalBool(x.X), c.evalBool(x.Y)))
	case "==", "!=":
		a, b := c.unify(c.eval(x.X), c.eval(x.Y))
		var t string
		if _, ok := a.Ty.Underlying().(*types.Slice); ok && b.T == "(mk_slice 0 0 0 0)" {
			t = "(= (s_base " + a.T + ") 0)"
		} else if _, ok := b.Ty.Underlying().(*types.Slice); ok && a.T == "(mk_slice 0 0 0 0)" {
			t = "(= (s_base " + b.T + ") 0)"
		} else if _, ok := a.Ty.Underlying().(*types.Interface); ok && b.T == "(mk_iface 0 0)" {
			t = "(= (i_tag " + a.T + ") 0)"
		} else {
			if c.s.e.sortOf(a.Ty) != c.s.e.sortOf(b.Ty) {
				c.fail("comparing %v with %v", a.Ty, b.Ty)
			}
			t = eq(c.s.term(a), c.s.term(b))
		}
		if x.Op == "!=" {
			t = not(t)
		}
		return bval(t)
	case "<", "<=", ">", ">=":
		return bval("(" + x.Op + " " + c.evalInt(x.X) + " " + c.evalInt(x.Y) + ")")
	case "+":
		a, b := c.eval(x.X), c.eval(x.Y)
		if isStringTy(a.Ty) {
			return Val{T: "(str_cat " + a.T + " " + b.T + ")", Ty: a.Ty}
		}
		if !isIntTy(a.Ty) || !isIntTy(b.Ty) {
			c.fail("+ on %v,%v", a.Ty, b.Ty)
		}
		return ival("(+ " + a.T + " " + b.T + ")")
	case "-", "*":
		return ival("(" + x.Op + " " + c.evalInt(x.X) + " " + c.evalInt(x.Y) + ")")
	case "/":
		return ival("(div " + c.evalInt(x.X) + " " + c.evalInt(x.Y) + ")")
	case "%":
		return ival("(mod " + c.evalInt(x.X) + " " + c.evalInt(x.Y) + ")")
	case "&":
		// only constant masks
		a := c.evalInt(x.X)
		if l, ok := x.Y.(*SLit); ok && l.Kind == "int" {
			return ival(maskAnd(a, parseIntLit(l.Val)))
		}
		b := c.eval(x.Y)
		if n, ok := new(big.Int).SetString(b.T, 10); ok {
			return ival(maskAnd(a, n))
		}
		c.fail("& needs a constant mask")
	}
	c.fail("unsupported operator %s", x.Op)
	return Val{}
}

// maskAnd encodes x & m for a non-negative x and constant m using div/mod.
func maskAnd(x string, m *big.Int) string {
	if m.Sign() == 0 {
		return "0"
	}
	// contiguous low mask
	if new(big.Int).And(m, new(big.Int).Add(m, big.NewInt(1))).Sign() == 0 {
		return "(mod " + x + " " + new(big.Int).Add(m, big.NewInt(1)).String() + ")"
	}
	var parts []string
	i := 0
	for i < m.BitLen() {
		if m.Bit(i) == 0 {
			i++
			continue
		}
		j := i
		for j < m.BitLen() && m.Bit(j) == 1 {
			j++
		}
		// bits i..j-1 : ((x div 2^i) mod 2^(j-i)) * 2^i
		parts = append(parts, fmt.Sprintf("(* (mod (div %s %s) %s) %s)", x, pow2(uint(i)).String(), pow2(uint(j-i)).String(), pow2(uint(i)).String()))
		i = j
	}
	if len(parts) == 1 {
		return parts[0]
	}
	return "(+ " + strings.Join(parts, " ") + ")"
}

func (c *SpecCtx) quant(q *SQuant) Val {
	e := c.s.e
	n := c.child()
	var binders []string
	var guard []string
	var boundNames []string
	for _, v := range q.Vars {
		name := e.freshName("q_" + v[0])
		boundNames = append(boundNames, name)
		if v[1] == "" {
			binders = append(binders, "("+name+" Int)")
			n.vars[v[0]] = ival(name)
			lo, hi := c.evalInt(q.Lo), c.evalInt(q.Hi)
			guard = append(guard, "(<= "+lo+" "+name+")", "(< "+name+" "+hi+")")
		} else {
			t, err := e.resolveType(c.pkg, v[1])
			if err != nil {
				c.fail("%v", err)
			}
			binders = append(binders, "("+name+" "+e.sortOf(t)+")")
			n.vars[v[0]] = Val{T: name, Ty: t}
			if q.Forall {
				guard = append(guard, e.typeInv(t, name))
			}
		}
	}
	// nothing evaluated under the binder may leak into the path (bound variables are not in scope there)
	ncmds, savedNoNames, savedAssumed := len(c.s.cmds), c.s.noNames, c.s.assumed
	c.s.noNames = true
	body := n.evalBool(q.Body)
	var trigTerms []string
	n.trig = true
	for _, t := range q.Trig {
		trigTerms = append(trigTerms, n.eval(t).T)
	}
	n.trig = false
	// keep side effects that do not mention a bound variable (e.g. promotion of a local to the heap)
	added := append([]string(nil), c.s.cmds[ncmds:]...)
	c.s.cmds = c.s.cmds[:ncmds]
	for _, cmd := range added {
		leak := false
		for _, bn := range boundNames {
			if strings.Contains(cmd, bn) {
				leak = true
				break
			}
		}
		if !leak {
			c.s.cmds = append(c.s.cmds, cmd)
		}
	}
	c.s.noNames, c.s.assumed = savedNoNames, savedAssumed
	var trig string
	if len(trigTerms) > 0 {
		trig = " :pattern (" + strings.Join(trigTerms, " ") + ")"
	}
	g := and(guard...)
	var inner string
	if q.Forall {
		inner = implies(g, body)
	} else {
		inner = and(g, body)
	}
	if trig != "" {
		inner = "(! " + inner + trig + ")"
	}
	kw := "forall"
	if !q.Forall {
		kw = "exists"
	}
	return bval("(" + kw + " (" + strings.Join(binders, " ") + ") " + inner + ")")
}

func (c *SpecCtx) call(x *SCall) Val {
	s := c.s
	e := s.e
	arg := func(i int) Val {
		if i >= len(x.Args) {
			c.fail("%s: missing argument %d", x.Fn, i)
		}
		return c.eval(x.Args[i])
	}
	switch x.Fn {
	case "old":
		if c.old == nil {
			return arg(0)
		}
		return c.withHeap(c.old, func() Val { return c.eval(x.Args[0]) })
	case "entry":
		// loop invariants: the value of the expression when the loop was first reached
		if c.entry == nil {
			c.fail("entry() outside a loop invariant")
		}
		saved := s.cells
		if c.entryCells != nil {
			// local variables too have their value of the first arrival (cells created since keep their current value)
			tmp := make(map[int]Val, len(saved))
			for k, v := range saved {
				tmp[k] = v
			}
			for k, v := range c.entryCells {
				if s.promoted[k] == "" {
					tmp[k] = v
				}
			}
			s.cells = tmp
		}
		defer func() { s.cells = saved }()
		return c.withHeap(c.entry, func() Val { return c.eval(x.Args[0]) })
	case "len":
		v := arg(0)
		switch v.Ty.Underlying().(type) {
		case *types.Slice:
			return ival("(s_len " + v.T + ")")
		case *types.Map:
			return ival(s.mapLen(v.Ty, v.T))
		}
		if isStringTy(v.Ty) {
			return ival("(slen " + v.T + ")")
		}
		if sp, ok := isSpec(v.Ty); ok && sp.Sort == "Bytes" {
			return ival("(blen " + v.T + ")")
		}
		c.fail("len of %v", v.Ty)
	case "cap":
		return ival("(s_cap " + arg(0).T + ")")
	case "base":
		return ival("(s_base " + arg(0).T + ")")
	case "off":
		return ival("(s_off " + arg(0).T + ")")
	case "has":
		m, k := arg(0), arg(1)
		if c.trig {
			return bval(s.mapHas(m.Ty, m.T, s.term(k)))
		}
		return bval(and("(not (= "+m.T+" 0))", s.mapHas(m.Ty, m.T, s.term(k))))
	case "typeis", "is":
		v := arg(0)
		t, err := e.resolveType(c.pkg, x.Args[1].(*SLit).Val)
		if err != nil {
			c.fail("%v", err)
		}
		if it, ok := t.Underlying().(*types.Interface); ok {
			return bval(e.implements("(i_tag "+v.T+")", it))
		}
		if v.Dyn != nil {
			// the dynamic type is pinned on this path
			return bval(fmt.Sprint(types.Identical(v.Dyn, t)))
		}
		return bval(fmt.Sprintf("(= (i_tag %s) %d)", v.T, e.typeTag(t)))
	case "tag":
		return ival("(i_tag " + arg(0).T + ")")
	case "min":
		a, b := c.evalInt(x.Args[0]), c.evalInt(x.Args[1])
		return ival("(ite (<= " + a + " " + b + ") " + a + " " + b + ")")
	case "max":
		a, b := c.evalInt(x.Args[0]), c.evalInt(x.Args[1])
		return ival("(ite (>= " + a + " " + b + ") " + a + " " + b + ")")
	case "implies":
		return bval(implies(c.evalBool(x.Args[0]), c.evalBool(x.Args[1])))
	case "bytes":
		// bytes(s): content window of a []byte as a Bytes value
		v := arg(0)
		return Val{T: s.window(v.T), Ty: specBytes}
	case "unchanged":
		// unchanged("heap-id", ...): the named heaps are identical to their old() versions
		var cs []string
		for _, a := range x.Args {
			l, ok := a.(*SLit)
			if !ok || l.Kind != "str" {
				c.fail("unchanged expects heap names as strings")
			}
			id := e.modName(l.Val)
			so := e.heapSortFromID(id)
			if so == "" {
				c.fail("unchanged: unknown heap %s", id)
			}
			cur := s.heapTerm(id, so)
			old := c.oldHeapTerm(id, so)
			cs = append(cs, eq(cur, old))
		}
		return bval(and(cs...))
	case "iofailed":
		cur := s.heapTerm("gh:$iofail", "Int")
		old := c.oldHeapTerm("gh:$iofail", "Int")
		// an I/O failure happened during the call
		if cur == old {
			return bval("false")
		}
		return bval("(> " + cur + " " + old + ")")
	case "preserved":
		// preserved("E:uint8"): every backing array allocated in the old state has unchanged content
		l := x.Args[0].(*SLit)
		id := e.modName(l.Val)
		so := e.heapSortFromID(id)
		if so == "" {
			c.fail("preserved: unknown heap %s", id)
		}
		cur := s.heapTerm(id, so)
		old := c.oldHeapTerm(id, so)
		a0 := c.oldHeapTerm(allocHeap, "(Array Int Bool)")
		if cur == old {
			return bval("true")
		}
		q := e.freshName("q_b")
		return bval("(forall ((" + q + " Int)) (! (=> (select " + a0 + " " + q + ") (= (select " + cur + " " + q + ") (select " + old + " " + q + "))) :pattern ((select " + cur + " " + q + "))))")
	case "onlyWindow":
		// onlyWindow("E:uint8", p): the heap changed at most inside the window of slice p
		l := x.Args[0].(*SLit)
		id := e.modName(l.Val)
		so := e.heapSortFromID(id)
		if so == "" {
			c.fail("onlyWindow: unknown heap %s", id)
		}
		p := arg(1)
		cur := s.heapTerm(id, so)
		old := c.oldHeapTerm(id, so)
		if cur == old {
			return bval("true")
		}
		qb, qi := e.freshName("q_b"), e.freshName("q_i")
		in := "(and (= " + qb + " (s_base " + p.T + ")) (<= (s_off " + p.T + ") " + qi + ") (< " + qi + " (+ (s_off " + p.T + ") (s_len " + p.T + "))))"
		return bval("(forall ((" + qb + " Int) (" + qi + " Int)) (! (=> (not " + in + ") (= (select (select " + cur + " " + qb + ") " + qi + ") (select (select " + old + " " + qb + ") " + qi + "))) :pattern ((select (select " + cur + " " + qb + ") " + qi + "))))")
	case "iscase":
		// iscase("K"): this verification is the foreach case K (folds to a literal)
		return bval(fmt.Sprint(e.curCase == x.Args[0].(*SLit).Val))
	case "otherheap":
		// otherheap(g(x...)) in an axiom: g reading a second, independently quantified set of heaps
		saved := c.otherHeap
		c.otherHeap = true
		defer func() { c.otherHeap = saved }()
		return c.eval(x.Args[0])
	case "inold":
		// inold(g(x...)): the heap-reading spec function g applied to the CURRENT values of its arguments, reading the heaps of
		// the old state (e.g. "what this message, as it is now, encodes to in the memory the caller passed in")
		if c.old == nil {
			return arg(0)
		}
		saved := c.readsOld
		c.readsOld = true
		defer func() { c.readsOld = saved }()
		return c.eval(x.Args[0])
	case "at":
		// at(s, k): element k of slice s through an accessor function symbol elemat_T(heap, s, k) == s[k], so that quantified
		// facts about elements can be triggered without index arithmetic in the pattern
		sv := arg(0)
		sl, ok := sv.Ty.Underlying().(*types.Slice)
		if !ok {
			c.fail("at() of non-slice")
		}
		et := sl.Elem()
		id, hsort, h := s.elemHeap(et)
		_ = id
		sym := e.d.symbol("elemat_", typeKey(et))
		es := e.sortOf(et)
		if !e.atDeclared[sym] {
			e.atDeclared[sym] = true
			e.d.add("elemat:"+sym, fmt.Sprintf("(declare-fun %s (%s Slice Int) %s)", sym, hsort, es))
			e.d.addAxiom("core", "def_"+sym, fmt.Sprintf("(forall ((h %s) (s Slice) (k Int)) (! (= (%s h s k) (select (select h (s_base s)) (+ (s_off s) k))) :pattern ((%s h s k))))", hsort, sym, sym))
		}
		return Val{T: "(" + sym + " " + h + " " + sv.T + " " + c.evalInt(x.Args[1]) + ")", Ty: et}
	case "rawat":
		// rawat("T", b, i): the element of type T at index i of the backing array b (element heap E:T)
		t, err := e.resolveType(c.pkg, x.Args[0].(*SLit).Val)
		if err != nil {
			c.fail("%v", err)
		}
		return Val{T: s.readElem(t, c.evalInt(x.Args[1]), c.evalInt(x.Args[2])), Ty: t}
	case "typeinv":
		// typeinv("T", x): the type invariant of T holds of the term x
		t, err := e.resolveType(c.pkg, x.Args[0].(*SLit).Val)
		if err != nil {
			c.fail("%v", err)
		}
		return Val{T: e.typeInv(t, c.eval(x.Args[1]).T), Ty: specBool}
	case "mkslice":
		// mkslice("[]T", base, off, len, cap)
		t, err := e.resolveType(c.pkg, x.Args[0].(*SLit).Val)
		if err != nil {
			c.fail("%v", err)
		}
		return Val{T: "(mk_slice " + c.evalInt(x.Args[1]) + " " + c.evalInt(x.Args[2]) + " " + c.evalInt(x.Args[3]) + " " + c.evalInt(x.Args[4]) + ")", Ty: t}
	case "rawarr":
		// rawarr("T", b): the backing array b of elements T as a value
		t, err := e.resolveType(c.pkg, "Arr_"+x.Args[0].(*SLit).Val)
		if err != nil {
			c.fail("%v", err)
		}
		_, _, h := s.elemHeap(t.(*SpecSort).Elem)
		return Val{T: "(select " + h + " " + c.evalInt(x.Args[1]) + ")", Ty: t}
	case "arrat":
		a := c.eval(x.Args[0])
		as, ok := a.Ty.(*SpecSort)
		if !ok || as.Elem == nil {
			c.fail("arrat: not an Arr value")
		}
		return Val{T: "(select " + a.T + " " + c.evalInt(x.Args[1]) + ")", Ty: as.Elem}
	case "tail":
		// tail(s, i): the slice s[i:]
		sv := arg(0)
		i := c.evalInt(x.Args[1])
		return Val{T: "(mk_slice (s_base " + sv.T + ") (+ (s_off " + sv.T + ") " + i + ") (- (s_len " + sv.T + ") " + i + ") (- (s_cap " + sv.T + ") " + i + "))", Ty: sv.Ty}
	case "dynknown":
		// dynknown(v): the dynamic type of the interface value is known structurally on this path
		return bval(fmt.Sprint(arg(0).Dyn != nil))
	case "entrysame":
		// entrysame("F:T.f"): the whole heap is what it was when the loop was first reached (loop invariants)
		l := x.Args[0].(*SLit)
		id := e.modName(l.Val)
		so := e.heapSortFromID(id)
		if so == "" {
			c.fail("entrysame: unknown heap %s", id)
		}
		if c.entry == nil {
			c.fail("entrysame() outside a loop invariant")
		}
		cur := s.heapTerm(id, so)
		var was string
		c.withHeap(c.entry, func() Val { was = s.heapTerm(id, so); return Val{} })
		return bval(eq(cur, was))
	case "allocated":
		return bval("(select " + s.allocTerm() + " " + s.term(arg(0)) + ")")
	case "fresh":
		// fresh(p): p was not allocated in the old state
		v := arg(0)
		if c.old == nil {
			c.fail("fresh() needs an old state")
		}
		a0 := c.oldHeapTerm(allocHeap, "(Array Int Bool)")
		if isIntTy(v.Ty) {
			return bval(and("(> "+v.T+" 0)", "(not (select "+a0+" "+v.T+"))"))
		}
		return bval(and("(> "+s.term(v)+" 0)", "(not (select "+a0+" "+s.term(v)+"))"))
	case "int", "int64", "int32", "int16", "int8", "uint", "uint64", "uint32", "uint16", "uint8", "byte":
		var bk types.BasicKind
		for _, b := range types.Typ {
			if b.Name() == x.Fn {
				bk = b.Kind()
			}
		}
		if x.Fn == "byte" {
			bk = types.Uint8
		}
		return ival(e.wrap(types.Typ[bk], c.evalInt(x.Args[0])))
	case "elemptrs":
		// true in verifications whose root contract models pointers to slice elements
		return bval(fmt.Sprint(e.curElemPtrs))
	case "elemptr":
		// elemptr(s, k): the pointer &s[k]
		e.needEptr()
		sv := arg(0)
		sl, ok := sv.Ty.Underlying().(*types.Slice)
		if !ok {
			c.fail("elemptr of non-slice")
		}
		return Val{T: "(eptr (s_base " + sv.T + ") (+ (s_off " + sv.T + ") " + c.evalInt(x.Args[1]) + "))", Ty: types.NewPointer(sl.Elem())}
	case "toiface":
		// toiface(v): v boxed into an interface value (dynamic type = static type of v)
		v := arg(0)
		return Val{T: e.mkIface(v.Ty, s.term(v)), Ty: types.NewInterfaceType(nil, nil)}
	case "dynalloc":
		return ival(s.heapTerm("gh:$dynalloc", "Int"))
	case "unix":
		e.needTime()
		return ival("(time_unix " + arg(0).T + ")")
	case "utc":
		e.needTime()
		return Val{T: "(time_utc (time_of " + arg(0).T + "))", Ty: e.timeType()}
	case "bcat", "btake", "bdrop", "blen", "le1", "le2", "le4", "le8", "dec1", "dec2", "dec4", "dec8", "sbytes", "mkstr":
		e.needBytes()
		s.groups["bytes"] = true
		var as []string
		for i := range x.Args {
			as = append(as, arg(i).T)
		}
		ret := specBytes
		switch x.Fn {
		case "blen", "dec1", "dec2", "dec4", "dec8":
			return ival(app(x.Fn, as...))
		case "mkstr":
			return Val{T: app(x.Fn, as...), Ty: types.Typ[types.String]}
		}
		return Val{T: app(x.Fn, as...), Ty: ret}
	}
	if i := strings.Index(x.Fn, "."); i > 0 {
		// library function modelled as an uninterpreted function (same symbol as in the code)
		pn, fnn := x.Fn[:i], x.Fn[i+1:]
		for _, p := range e.allTypesPkgs {
			if p.Name() == pn {
				if o, ok := p.Scope().Lookup(fnn).(*types.Func); ok {
					var as []Val
					for i := range x.Args {
						as = append(as, arg(i))
					}
					sig := o.Type().(*types.Signature)
					return e.uninterpVals(s, p.Path()+"."+fnn, as, sig.Results().At(0).Type())
				}
			}
		}
		c.fail("unknown library function %s", x.Fn)
	}
	if g, ok := e.ghosts[x.Fn]; ok {
		v := arg(0)
		var key string
		switch {
		case x.Fn == "held":
			key = e.mutexKeyOf(s, v)
		case v.Addr != nil:
			key = e.objKey(s, v)
		default:
			key = refOf(s, v)
		}
		if sp, ok := isSpec(g.Ty); ok && sp.Sort == "Bytes" {
			e.needBytes()
			s.groups["bytes"] = true
		}
		gv := Val{T: s.ghostRead(g, key), Ty: g.Ty}
		if _, isSl := g.Ty.Underlying().(*types.Slice); isSl && !strings.Contains(gv.T, "q_") {
			// ghosts of slice type hold well-formed slice headers (they are only ever assigned from real slices)
			s.assume(e.typeInv(g.Ty, gv.T))
		}
		return gv
	}
	switch x.Fn {
	case "key":
		// identity key of an object as used by the ghost ledgers
		v := arg(0)
		if v.Addr != nil {
			return ival(e.objKey(s, v))
		}
		return ival(refOf(s, v))
	case "mutexkey":
		return ival(e.mutexKeyOf(s, arg(0)))
	case "was":
		// was(ghost, x): the value the ghost ledger had in the old state at the key of x, x evaluated in the current state
		id, ok := x.Args[0].(*SIdent)
		if !ok || e.ghosts[id.Name] == nil {
			c.fail("was: unknown ghost")
		}
		g := e.ghosts[id.Name]
		v := arg(1)
		var key string
		if isIntTy(v.Ty) {
			key = v.T
		} else if v.Addr != nil {
			key = e.objKey(s, v)
		} else {
			key = refOf(s, v)
		}
		h := c.oldHeapTerm("gh:"+g.Name, "(Array Int "+e.sortOf(g.Ty)+")")
		return Val{T: "(select " + h + " " + key + ")", Ty: g.Ty}
	case "gk":
		// gk(ghost, k): raw read of ghost ledger at key k
		id, ok := x.Args[0].(*SIdent)
		if !ok || e.ghosts[id.Name] == nil {
			c.fail("gk: unknown ghost")
		}
		g := e.ghosts[id.Name]
		kv := arg(1)
		if e.sortOf(kv.Ty) != "Int" {
			c.fail("gk: key must be of an integer-like sort")
		}
		return Val{T: s.ghostRead(g, s.term(kv)), Ty: g.Ty}
	case "lockcount":
		return ival(s.lockCountTerm())
	case "wt":
		// wt(x): x satisfies the invariant of its Go type (ranges, typed location)
		v := arg(0)
		return bval(e.typeInv(v.Ty, s.term(v)))
	case "errtext":
		return e.errText(s, arg(0))
	case "spawned":
		return ival(s.heapTerm("gh:$spawned", "Int"))
	case "visited":
		k := arg(0)
		kt := s.term(k)
		if _, isI := k.Ty.Underlying().(*types.Interface); !isI {
			kt = e.mkIface(k.Ty, kt)
		}
		return bval("(select " + s.heapTerm("gh:$visited", "(Array Iface Bool)") + " " + kt + ")")
	case "smhas", "smval":
		m := arg(0)
		k := arg(1)
		kt := s.term(k)
		if _, isI := k.Ty.Underlying().(*types.Interface); !isI {
			kt = e.mkIface(k.Ty, kt)
		}
		mk := e.objKey(s, m)
		if x.Fn == "smhas" {
			return bval("(select (select " + s.heapTerm("gh:$smhas", "(Array Int (Array Iface Bool))") + " " + mk + ") " + kt + ")")
		}
		return Val{T: "(select (select " + s.heapTerm("gh:$smval", "(Array Int (Array Iface Iface))") + " " + mk + ") " + kt + ")", Ty: types.NewInterfaceType(nil, nil)}
	}
	if sf, ok := e.specFuncs[x.Fn]; ok {
		e.declareSpecFunc(sf)
		var as []string
		for i := range x.Args {
			a := arg(i)
			if i < len(sf.PTypes) {
				a, _ = c.unify(a, Val{T: "", Ty: sf.PTypes[i]})
				if e.sortOf(a.Ty) != e.sortOf(sf.PTypes[i]) {
					c.fail("%s: argument %d has type %v, want %v", x.Fn, i, a.Ty, sf.PTypes[i])
				}
			}
			as = append(as, s.term(a))
		}
		if len(as) != len(sf.PTypes) {
			c.fail("%s: wrong number of arguments", x.Fn)
		}
		if len(sf.Reads) > 0 {
			var hs []string
			for i, id := range sf.Reads {
				if c.otherHeap {
					if s.bind == nil {
						c.fail("otherheap() is for axioms only")
					}
					hs = append(hs, s.heapTerm(id+"$2", sf.RSorts[i])) // a second, independently quantified heap
				} else if c.readsOld {
					hs = append(hs, c.oldHeapTerm(id, sf.RSorts[i]))
				} else {
					hs = append(hs, s.heapTerm(id, sf.RSorts[i]))
				}
			}
			as = append(hs, as...)
		}
		return Val{T: app(sf.Sym, as...), Ty: sf.Ret}
	}
	// conversion to a named type
	if c.pkg != nil {
		if t, err := e.resolveType(c.pkg, x.Fn); err == nil && len(x.Args) == 1 {
			v := arg(0)
			if isIntTy(t) && isIntTy(v.Ty) {
				return Val{T: e.wrap(t, v.T), Ty: t}
			}
			return Val{T: v.T, Ty: t}
		}
	}
	c.fail("unknown function %s", x.Fn)
	return Val{}
}

// declareSpecFunc emits the SMT declaration (or definition) of a spec function.
func (e *Engine) declareSpecFunc(sf *SpecFunc) {
	if sf.Sym != "" {
		return
	}
	sf.Sym = e.d.symbol("u_", sf.Name)
	var ps []string
	for _, t := range sf.PTypes {
		ps = append(ps, e.sortOf(t))
	}
	for _, id := range sf.Reads {
		so := e.heapSortFromID(id)
		if so == "" {
			panic(specError{"pure function " + sf.Name + ": unknown heap " + id})
		}
		sf.RSorts = append(sf.RSorts, so)
	}
	if sf.Body == nil {
		e.d.add("specfn:"+sf.Name, fmt.Sprintf("(declare-fun %s (%s) %s)", sf.Sym, strings.Join(append(append([]string{}, sf.RSorts...), ps...), " "), e.sortOf(sf.Ret)))
		if isIntTy(sf.Ret) {
			if _, ok := isSpec(sf.Ret); !ok {
				// typed integer result: range axiom
			}
		}
		return
	}
	// defined function: evaluate body in a heap-free context
	st := e.newState()
	st.noNames = true
	st.bind = &heapBind{}
	ctx := &SpecCtx{s: st, vars: map[string]Val{}, pkg: sf.Pkg, what: "pure " + sf.Name}
	var binders []string
	for i, id := range sf.Reads {
		binders = append(binders, "("+st.heapTerm(id, sf.RSorts[i])+" "+sf.RSorts[i]+")")
	}
	nReads := len(sf.Reads)
	for i, p := range sf.Params {
		n := "a_" + sanitize(p[0])
		binders = append(binders, "("+n+" "+ps[i]+")")
		ctx.vars[p[0]] = Val{T: n, Ty: sf.PTypes[i]}
	}
	body := ctx.eval(sf.Body)
	for _, c := range st.cmds {
		if strings.HasPrefix(c, "(declare-const") {
			panic(specError{"pure function " + sf.Name + " depends on program state"})
		}
	}
	if len(st.bind.ids) > nReads {
		panic(specError{"pure function " + sf.Name + " reads heaps not listed in its reads clause: " + strings.Join(st.bind.ids[nReads:], " ")})
	}
	e.d.add("specfn:"+sf.Name, fmt.Sprintf("(define-fun %s (%s) %s %s)", sf.Sym, strings.Join(binders, " "), e.sortOf(sf.Ret), st.term(body)))
}

// ---- maps, ghost state, windows (state helpers used by specs and the executor)

func mapIDs(t types.Type) (has, val, ln string) {
	k := typeKey(t.Underlying())
	return "MH:" + k, "MV:" + k, "ML:" + k
}

func (s *State) mapSorts(t types.Type) (ks, vs string) {
	m := t.Underlying().(*types.Map)
	return s.e.sortOf(m.Key()), s.e.sortOf(m.Elem())
}

func (s *State) mapHas(t types.Type, m, k string) string {
	hid, _, _ := mapIDs(t)
	ks, _ := s.mapSorts(t)
	h := s.heapTerm(hid, "(Array Int (Array "+ks+" Bool))")
	return "(select (select " + h + " " + m + ") " + k + ")"
}

func (s *State) mapVal(t types.Type, m, k string) string {
	_, vid, _ := mapIDs(t)
	ks, vs := s.mapSorts(t)
	h := s.heapTerm(vid, "(Array Int (Array "+ks+" "+vs+"))")
	return "(select (select " + h + " " + m + ") " + k + ")"
}

func (s *State) mapLen(t types.Type, m string) string {
	_, _, lid := mapIDs(t)
	h := s.heapTerm(lid, "(Array Int Int)")
	return "(select " + h + " " + m + ")"
}

func (s *State) ghostRead(g *GhostDecl, loc string) string {
	so := s.e.sortOf(g.Ty)
	h := s.heapTerm("gh:"+g.Name, "(Array Int "+so+")")
	return "(select " + h + " " + loc + ")"
}

func (s *State) ghostWrite(g *GhostDecl, loc, v string) {
	so := "(Array Int " + s.e.sortOf(g.Ty) + ")"
	h := s.heapTerm("gh:"+g.Name, so)
	s.setHeap("gh:"+g.Name, so, "(store "+h+" "+loc+" "+v+")")
}

// window returns the Bytes value of the content of a []byte slice term.
func (s *State) window(sl string) string {
	e := s.e
	e.needBytes()
	s.groups["bytes"] = true
	e.needWin()
	_, _, h := s.elemHeap(types.Typ[types.Uint8])
	return "(win (select " + h + " (s_base " + sl + ")) (s_off " + sl + ") (s_len " + sl + "))"
}

func (s *State) globalVal(o *types.Var) Val {
	e := s.e
	sp := e.pkgs[o.Pkg().Path()]
	if sp == nil {
		panic(specError{"global of unloaded package " + o.Pkg().Path()})
	}
	g := sp.Var(o.Name())
	if g == nil {
		panic(specError{"unknown global " + o.Name()})
	}
	return s.load(&Addr{Kind: AGlobal, Global: g, RootTy: o.Type()})
}
