package main

import (
	"bytes"
	"context"
	"fmt"
	"os"
	"os/exec"
	"path/filepath"
	"strings"
	"sync"
	"time"
)

type solverSpec struct {
	name string
	args func(file string, timeout int) []string
	pre  string
}

var solvers = []solverSpec{
	{"z3-4.8.12", func(f string, t int) []string { return []string{"z3", fmt.Sprintf("-T:%d", t), "-smt2", f} }, ""},
	{"z3-5.1.0", func(f string, t int) []string { return []string{"z3-new", fmt.Sprintf("-T:%d", t), "-smt2", f} }, ""},
	{"cvc5-1.0", func(f string, t int) []string {
		return []string{"cvc5", fmt.Sprintf("--tlimit=%d", t*1000), "--lang=smt2", "--produce-models", f}
	}, "(set-logic ALL)\n"},
}

// smtText renders an obligation as a complete SMT-LIB script.
func (e *Engine) smtText(o *Obligation, wantModel bool) string {
	var b strings.Builder
	b.WriteString("; obligation " + o.Name + "\n")
	b.WriteString(e.d.text(o.Groups))
	b.WriteString(e.strDistinct())
	b.WriteString(e.groundFacts())
	b.WriteString(e.errGlobalsDistinct())
	for _, c := range o.Cmds {
		b.WriteString(c)
		b.WriteByte('\n')
	}
	b.WriteString("(assert (not " + o.Goal + "))\n(check-sat)\n")
	if wantModel {
		b.WriteString("(get-model)\n")
	}
	return b.String()
}

const maxSMTSize = 4 << 20

func runSolver(ctx context.Context, sp solverSpec, file string, timeout int) (status, out string) {
	a := sp.args(file, timeout)
	cctx, cancel := context.WithTimeout(ctx, time.Duration(timeout+2)*time.Second)
	defer cancel()
	cmd := exec.CommandContext(cctx, a[0], a[1:]...)
	var buf bytes.Buffer
	cmd.Stdout = &buf
	cmd.Stderr = &buf
	cmd.Run()
	out = buf.String()
	first := strings.TrimSpace(strings.SplitN(out, "\n", 2)[0])
	switch first {
	case "unsat", "sat", "unknown":
		return first, out
	}
	if strings.Contains(first, "timeout") || cctx.Err() != nil {
		return "timeout", out
	}
	return "error", out
}

// solve discharges one obligation with the solver portfolio.
func (e *Engine) solve(o *Obligation, dir string, timeout int) {
	if o.Structural {
		return
	}
	start := time.Now()
	txt := e.smtText(o, true)
	if len(txt) > maxSMTSize {
		o.Status = "failed"
		o.Output = fmt.Sprintf("SMT script exceeds size cap (%d bytes)", len(txt))
		return
	}
	file := filepath.Join(dir, sanitize(o.Name)+fmt.Sprintf("_%d.smt2", o.seq))
	os.WriteFile(file, []byte(txt), 0644)
	cvcfile := file
	ctx, cancel := context.WithCancel(context.Background())
	defer cancel()
	type res struct{ solver, status, out string }
	ch := make(chan res, len(solvers))
	var wg sync.WaitGroup
	for _, sp := range solvers {
		sp := sp
		f := file
		if sp.pre != "" {
			cvcfile = file + ".cvc5.smt2"
			os.WriteFile(cvcfile, []byte("(set-option :produce-models true)\n"+sp.pre+txt), 0644)
			f = cvcfile
		}
		wg.Add(1)
		go func() {
			defer wg.Done()
			st, out := runSolver(ctx, sp, f, timeout)
			ch <- res{sp.name, st, out}
		}()
	}
	var outs []string
	got := 0
	o.Status = "failed"
	for got < len(solvers) {
		r := <-ch
		got++
		outs = append(outs, r.solver+": "+r.status)
		if r.status == "unsat" {
			o.Status = "discharged"
			o.Solver = r.solver
			cancel()
			break
		}
		if r.status == "sat" {
			o.Status = "failed"
			o.Solver = r.solver
			o.Model = r.out
			cancel()
			break
		}
		if r.status == "error" {
			outs = append(outs, firstLines(r.out, 3))
		}
	}
	go func() { wg.Wait() }()
	if o.Status == "failed" && o.Model == "" {
		// candidate model: drop quantified hypotheses (ground instances only); to be confirmed by replay
		var b strings.Builder
		for _, ln := range strings.Split(txt, "\n") {
			if strings.Contains(ln, "(forall ") || strings.Contains(ln, "(exists ") {
				if strings.HasPrefix(ln, "(assert (not ") {
					b.Reset()
					break
				}
				continue
			}
			b.WriteString(ln + "\n")
		}
		if b.Len() > 0 {
			cf := file + ".candidate.smt2"
			os.WriteFile(cf, []byte(b.String()), 0644)
			if st, out := runSolver(context.Background(), solvers[1], cf, 5); st == "sat" {
				o.Model = "; CANDIDATE model (quantified hypotheses dropped)\n" + out
				outs = append(outs, "candidate-model: sat")
			}
			os.Remove(cf)
		}
	}
	o.Time = time.Since(start).Seconds()
	o.Output = strings.Join(outs, "; ")
	if o.Status == "discharged" {
		os.Remove(file)
		if cvcfile != file {
			os.Remove(cvcfile)
		}
	} else {
		o.File = file
	}
}

func firstLines(s string, n int) string {
	ls := strings.Split(strings.TrimSpace(s), "\n")
	if len(ls) > n {
		ls = ls[:n]
	}
	return strings.Join(ls, " | ")
}

func (e *Engine) solveAll(obls []*Obligation, dir string, timeout, workers int) {
	os.MkdirAll(dir, 0755)
	var wg sync.WaitGroup
	sem := make(chan struct{}, workers)
	for i, o := range obls {
		o.seq = i
		wg.Add(1)
		sem <- struct{}{}
		go func(o *Obligation) {
			defer wg.Done()
			defer func() { <-sem }()
			e.solve(o, dir, timeout)
		}(o)
	}
	wg.Wait()
}

// feasible: quick satisfiability check of a path condition (used only to prune infeasible dispatch branches;
// "unknown" counts as feasible, so pruning never hides an obligation of a reachable path).
func (x *Exec) feasible(st *State) bool {
	o := &Obligation{Name: "feasibility", Cmds: st.cmds, Goal: "false", Groups: st.groups}
	full := x.e.smtText(o, false)
	if len(full) > maxSMTSize {
		return true
	}
	// quantified hypotheses are dropped: fewer constraints can only make the path look more feasible
	var b strings.Builder
	for _, ln := range strings.Split(full, "\n") {
		if strings.Contains(ln, "(forall ") || strings.Contains(ln, "(exists ") {
			continue
		}
		b.WriteString(ln + "\n")
	}
	txt := b.String()
	dir := filepath.Join(verifDir, "out", "tmp")
	os.MkdirAll(dir, 0755)
	x.e.feasN++
	file := filepath.Join(dir, fmt.Sprintf("feas_%d_%d.smt2", os.Getpid(), x.e.feasN))
	os.WriteFile(file, []byte(txt), 0644)
	defer os.Remove(file)
	status, _ := runSolver(context.Background(), solvers[1], file, 2)
	return status != "unsat"
}
