package main

import (
	"bytes"
	"regexp"
	"sort"
	"context"
	"fmt"
	"os"
	"os/exec"
	"path/filepath"
	"strings"
	"sync"
	"time"
)

type solverSpec struct {
	name string
	args func(file string, timeout int) []string
	pre  string
}

var solvers = []solverSpec{
	{"z3-4.8.12", func(f string, t int) []string { return []string{"z3", fmt.Sprintf("-T:%d", t), "-smt2", f} }, ""},
	{"z3-5.1.0", func(f string, t int) []string { return []string{"z3-new", fmt.Sprintf("-T:%d", t), "-smt2", f} }, ""},
	{"z3-5.1.0/seed7", func(f string, t int) []string {
		return []string{"z3-new", fmt.Sprintf("-T:%d", t), "smt.random_seed=7", "-smt2", f}
	}, ""},
	{"z3-4.8.12/seed7", func(f string, t int) []string {
		return []string{"z3", fmt.Sprintf("-T:%d", t), "smt.random_seed=7", "-smt2", f}
	}, ""},
	{"cvc5-1.0", func(f string, t int) []string {
		return []string{"cvc5", fmt.Sprintf("--tlimit=%d", t*1000), "--lang=smt2", "--produce-models", f}
	}, "(set-logic ALL)\n"},
}

var selRe = regexp.MustCompile(`\(([A-Za-z_][A-Za-z0-9_!.$]*) `)
var symRe = regexp.MustCompile(`[A-Za-z_][A-Za-z0-9_!.$]*`)

type declCmd struct {
	text     string
	declares []string
	uses     []string
}

type axiomCmd struct {
	text     string
	patterns [][]string // symbols of each :pattern (any pattern fully available triggers the axiom)
	consts   []string   // for ground facts: all user symbols
	uses     []string
}

var smtBuiltins = map[string]bool{"assert": true, "forall": true, "exists": true, "and": true, "or": true, "not": true, "ite": true, "select": true, "store": true,
	"Int": true, "Bool": true, "Array": true, "true": true, "false": true, "mod": true, "div": true, "distinct": true, "as": true, "const": true, "let": true,
	"declare": true, "fun": true, "define": true, "sort": true, "datatypes": true, "pattern": true, "axiom": true, "evaluated": true}

func tokens(s string) []string {
	if i := strings.Index(s, " ; "); i >= 0 {
		s = s[:i]
	}
	var out []string
	seen := map[string]bool{}
	for _, t := range symRe.FindAllString(s, -1) {
		if !seen[t] && !smtBuiltins[t] {
			seen[t] = true
			out = append(out, t)
		}
	}
	return out
}

func parseDecl(line string) declCmd {
	d := declCmd{text: line, uses: tokens(line)}
	f := strings.Fields(line)
	switch {
	case strings.HasPrefix(line, "(declare-fun "), strings.HasPrefix(line, "(declare-const "), strings.HasPrefix(line, "(define-fun "), strings.HasPrefix(line, "(declare-sort "):
		d.declares = []string{strings.Trim(f[1], "()")}
	case strings.HasPrefix(line, "(declare-datatypes "):
		// sort, constructor and selectors: every symbol that is not the sort of a field
		// (declare-datatypes ((SORT 0)) (((CTOR (SEL sort) ...))))
		i := strings.Index(line, "(((")
		head := tokens(line[:i])
		if len(head) > 0 {
			d.declares = append(d.declares, head[0])
		}
		body := line[i+3:]
		ct := symRe.FindString(body)
		d.declares = append(d.declares, ct)
		for _, m := range selRe.FindAllStringSubmatch(body[len(ct):], -1) {
			d.declares = append(d.declares, m[1])
		}
	}
	return d
}

func patternSyms(ax string) [][]string {
	var res [][]string
	rest := ax
	for {
		i := strings.Index(rest, ":pattern (")
		if i < 0 {
			break
		}
		rest = rest[i+len(":pattern ("):]
		// up to the matching paren
		depth, j := 1, 0
		for j = 0; j < len(rest) && depth > 0; j++ {
			if rest[j] == '(' {
				depth++
			} else if rest[j] == ')' {
				depth--
			}
		}
		res = append(res, tokens(rest[:j]))
	}
	return res
}

// smtText renders an obligation as a complete SMT-LIB script containing only the declarations and axioms
// in the cone of influence of the obligation's symbols (dropping hypotheses is sound).
func (e *Engine) smtText(o *Obligation, wantModel bool) string {
	// parse global declarations
	var decls []declCmd
	for _, c := range e.d.order {
		for _, ln := range strings.Split(c, "\n") {
			if strings.TrimSpace(ln) != "" {
				decls = append(decls, parseDecl(ln))
			}
		}
	}
	declared := map[string]bool{}
	datatypeSym := map[string]bool{}
	funcSym := map[string]bool{}
	for _, d := range decls {
		if strings.HasPrefix(d.text, "(declare-fun ") || strings.HasPrefix(d.text, "(define-fun ") {
			if !strings.Contains(d.text, " () ") {
				for _, s := range d.declares {
					funcSym[s] = true
				}
			}
		}
	}
	for _, d := range decls {
		for _, s := range d.declares {
			declared[s] = true
			if strings.HasPrefix(d.text, "(declare-datatypes") {
				datatypeSym[s] = true
			}
		}
	}
	// defined functions are inlined by the solvers: a pattern mentioning one matches on the symbols of its body
	defBody := map[string][]string{}
	for _, d := range decls {
		if strings.HasPrefix(d.text, "(define-fun ") && len(d.declares) == 1 {
			var body []string
			for _, t := range d.uses {
				if t != d.declares[0] && !strings.HasPrefix(t, "a_") {
					body = append(body, t)
				}
			}
			defBody[d.declares[0]] = body
		}
	}
	var expandDef func(ts []string, depth int) []string
	expandDef = func(ts []string, depth int) []string {
		var out []string
		for _, t := range ts {
			if b, ok := defBody[t]; ok && depth < 5 {
				out = append(out, expandDef(b, depth+1)...)
			} else {
				out = append(out, t)
			}
		}
		return out
	}
	var axioms []axiomCmd
	addAx := func(text string) {
		a := axiomCmd{text: text, uses: tokens(text)}
		a.patterns = patternSyms(text)
		for i, p := range a.patterns {
			a.patterns[i] = expandDef(p, 0)
		}
		for _, t := range a.uses {
			if declared[t] && !datatypeSym[t] {
				a.consts = append(a.consts, t)
			}
		}
		axioms = append(axioms, a)
	}
	var gs []string
	for g := range e.d.axioms {
		if g == "bytes" && o.Groups["nobytes"] {
			continue // lemma about list structure only: bcat stays uninterpreted
		}
		if g == "core" || o.Groups[g] || (g == "bytes_assoc" && o.Groups["bytes"] && !o.Groups["noassoc"] && !o.Groups["nobytes"]) {
			gs = append(gs, g)
		}
	}
	sort.Strings(gs)
	for _, g := range gs {
		for _, a := range e.d.axioms[g] {
			addAx(a)
		}
	}
	for _, ln := range strings.Split(e.groundFacts(), "\n") {
		if ln != "" {
			addAx(ln)
		}
	}
	needed := map[string]bool{}
	for _, c := range o.Cmds {
		for _, t := range tokens(c) {
			needed[t] = true
		}
	}
	for _, t := range tokens(o.Goal) {
		needed[t] = true
	}
	inclDecl := make([]bool, len(decls))
	inclAx := make([]bool, len(axioms))
	for changed := true; changed; {
		changed = false
		for i, d := range decls {
			if inclDecl[i] {
				continue
			}
			hit := false
			for _, s := range d.declares {
				if needed[s] {
					hit = true
					break
				}
			}
			if hit {
				inclDecl[i] = true
				changed = true
				for _, t := range d.uses {
					needed[t] = true
				}
			}
		}
		for i, a := range axioms {
			if inclAx[i] {
				continue
			}
			fire := false
			if len(a.patterns) > 0 {
				for _, p := range a.patterns {
					all := true
					for _, t := range p {
						if declared[t] && !needed[t] {
							all = false
							break
						}
					}
					if all {
						fire = true
						break
					}
				}
			} else if strings.Contains(a.text, "; axiom global") {
				// defining fact of a package-level constant: needed iff the constant occurs
				for _, t := range a.consts {
					if strings.HasPrefix(t, "G_") && needed[t] {
						fire = true
					}
				}
			} else {
				fire = len(a.consts) > 0
				for _, t := range a.consts {
					if !needed[t] && !funcSym[t] {
						fire = false
						break
					}
				}
			}
			if fire {
				inclAx[i] = true
				changed = true
				for _, t := range a.uses {
					needed[t] = true
				}
			}
		}
	}
	var b strings.Builder
	b.WriteString("; obligation " + o.Name + "\n")
	for i, d := range decls {
		if inclDecl[i] {
			b.WriteString(d.text + "\n")
		}
	}
	var pinned []string // heap-quantified axioms to be instantiated at the heap constants of this script (use pinheaps)
	for i, a := range axioms {
		if inclAx[i] {
			if o.Groups["pinheaps"] && strings.HasPrefix(a.text, "(assert (forall ((hb_") {
				pinned = append(pinned, a.text)
				continue
			}
			b.WriteString(a.text + "\n")
		}
	}
	// distinctness of the string literals / error globals that occur
	var lits []string
	for _, sym := range e.strlits {
		if needed[sym] {
			lits = append(lits, sym)
		}
	}
	sort.Strings(lits)
	if len(lits) > 1 {
		b.WriteString("(assert (distinct " + strings.Join(lits, " ") + "))\n")
	}
	var egs []string
	for _, g := range e.errGlobals {
		if needed[g] {
			egs = append(egs, "(i_ref "+g+")")
		}
	}
	sort.Strings(egs)
	if len(egs) > 1 {
		b.WriteString("(assert (distinct " + strings.Join(egs, " ") + "))\n")
	}
	for _, c := range o.Cmds {
		b.WriteString(c)
		b.WriteByte('\n')
	}
	if len(pinned) > 0 {
		sofar := b.String()
		for _, ax := range pinned {
			b.WriteString(pinHeaps(ax, sofar, o.Goal) + "\n")
		}
	}
	b.WriteString("(assert (not " + o.Goal + "))\n(check-sat)\n")
	if wantModel {
		b.WriteString("(get-model)\n")
	}
	return b.String()
}

const maxSMTSize = 4 << 20

func runSolver(ctx context.Context, sp solverSpec, file string, timeout int) (status, out string) {
	a := sp.args(file, timeout)
	cctx, cancel := context.WithTimeout(ctx, time.Duration(timeout+2)*time.Second)
	defer cancel()
	cmd := exec.CommandContext(cctx, a[0], a[1:]...)
	var buf bytes.Buffer
	cmd.Stdout = &buf
	cmd.Stderr = &buf
	cmd.Run()
	out = buf.String()
	first := strings.TrimSpace(strings.SplitN(out, "\n", 2)[0])
	switch first {
	case "unsat", "sat", "unknown":
		return first, out
	}
	if strings.Contains(first, "timeout") || cctx.Err() != nil {
		return "timeout", out
	}
	return "error", out
}

// solve discharges one obligation with the solver portfolio.
func (e *Engine) solve(o *Obligation, dir string, timeout int) {
	if o.Structural {
		return
	}
	start := time.Now()
	txt := e.smtText(o, true)
	if len(txt) > maxSMTSize {
		o.Status = "failed"
		o.Output = fmt.Sprintf("SMT script exceeds size cap (%d bytes)", len(txt))
		return
	}
	file := filepath.Join(dir, sanitize(o.Name)+fmt.Sprintf("_%d.smt2", o.seq))
	os.WriteFile(file, []byte(txt), 0644)
	cvcfile := file
	ctx, cancel := context.WithCancel(context.Background())
	defer cancel()
	// stage 1: one fast attempt with the solver that decides most obligations; the full portfolio only if it does not answer
	if st1, out1 := runSolver(context.Background(), solvers[0], file, 2); st1 == "unsat" {
		o.Status, o.Solver, o.Time, o.Output = "discharged", solvers[0].name, time.Since(start).Seconds(), solvers[0].name+": unsat"
		if os.Getenv("P9VC_KEEPSMT") == "" {
			os.Remove(file)
		}
		return
	} else if st1 == "sat" {
		o.Status, o.Solver, o.Model = "failed", solvers[0].name, out1
		o.Time, o.Output, o.File = time.Since(start).Seconds(), solvers[0].name+": sat", file
		return
	}
	type res struct{ solver, status, out string }
	ch := make(chan res, len(solvers))
	var wg sync.WaitGroup
	for _, sp := range solvers {
		sp := sp
		f := file
		if sp.pre != "" {
			cvcfile = file + ".cvc5.smt2"
			os.WriteFile(cvcfile, []byte("(set-option :produce-models true)\n"+sp.pre+txt), 0644)
			f = cvcfile
		}
		wg.Add(1)
		go func() {
			defer wg.Done()
			t := timeout
			if o.MinTimeout > t {
				t = o.MinTimeout
			}
			st, out := runSolver(ctx, sp, f, t)
			ch <- res{sp.name, st, out}
		}()
	}
	var outs []string
	got := 0
	o.Status = "failed"
	for got < len(solvers) {
		r := <-ch
		got++
		outs = append(outs, r.solver+": "+r.status)
		if r.status == "unsat" {
			o.Status = "discharged"
			o.Solver = r.solver
			cancel()
			break
		}
		if r.status == "sat" {
			o.Status = "failed"
			o.Solver = r.solver
			o.Model = r.out
			cancel()
			break
		}
		if r.status == "error" {
			outs = append(outs, firstLines(r.out, 3))
		}
	}
	go func() { wg.Wait() }()
	if o.Status == "failed" && o.Model == "" {
		// candidate model: drop quantified hypotheses (ground instances only); to be confirmed by replay
		var b strings.Builder
		for _, ln := range strings.Split(txt, "\n") {
			if strings.Contains(ln, "(forall ") || strings.Contains(ln, "(exists ") {
				if strings.HasPrefix(ln, "(assert (not ") {
					b.Reset()
					break
				}
				continue
			}
			b.WriteString(ln + "\n")
		}
		if b.Len() > 0 {
			cf := file + ".candidate.smt2"
			os.WriteFile(cf, []byte(b.String()), 0644)
			if st, out := runSolver(context.Background(), solvers[1], cf, 5); st == "sat" {
				o.Model = "; CANDIDATE model (quantified hypotheses dropped)\n" + out
				outs = append(outs, "candidate-model: sat")
			}
			os.Remove(cf)
		}
	}
	o.Time = time.Since(start).Seconds()
	o.Output = strings.Join(outs, "; ")
	if o.Status == "discharged" && os.Getenv("P9VC_KEEPSMT") == "" {
		os.Remove(file)
		if cvcfile != file {
			os.Remove(cvcfile)
		}
	} else {
		o.File = file
	}
}

func firstLines(s string, n int) string {
	ls := strings.Split(strings.TrimSpace(s), "\n")
	if len(ls) > n {
		ls = ls[:n]
	}
	return strings.Join(ls, " | ")
}

func (e *Engine) solveAll(obls []*Obligation, dir string, timeout, workers int) {
	os.MkdirAll(dir, 0755)
	var wg sync.WaitGroup
	sem := make(chan struct{}, workers)
	for i, o := range obls {
		o.seq = i
		wg.Add(1)
		sem <- struct{}{}
		go func(o *Obligation) {
			defer wg.Done()
			defer func() { <-sem }()
			e.solve(o, dir, timeout)
		}(o)
	}
	wg.Wait()
}

// feasible: quick satisfiability check of a path condition (used only to prune infeasible dispatch branches;
// "unknown" counts as feasible, so pruning never hides an obligation of a reachable path).
func (x *Exec) feasible(st *State) bool {
	o := &Obligation{Name: "feasibility", Cmds: st.cmds, Goal: "false", Groups: st.groups}
	full := x.e.smtText(o, false)
	if len(full) > maxSMTSize {
		return true
	}
	// quantified hypotheses are dropped: fewer constraints can only make the path look more feasible
	var b strings.Builder
	for _, ln := range strings.Split(full, "\n") {
		if strings.Contains(ln, "(forall ") || strings.Contains(ln, "(exists ") {
			continue
		}
		b.WriteString(ln + "\n")
	}
	txt := b.String()
	dir := filepath.Join(outBase(), "tmp")
	os.MkdirAll(dir, 0755)
	x.e.feasN++
	file := filepath.Join(dir, fmt.Sprintf("feas_%d_%d.smt2", os.Getpid(), x.e.feasN))
	os.WriteFile(file, []byte(txt), 0644)
	defer os.Remove(file)
	status, _ := runSolver(context.Background(), solvers[1], file, 2)
	return status != "unsat"
}

// raceRefute runs z3 4.8.12, z3 5.1.0 and cvc5 on one feasibility script and reports whether any of them refutes it within
// the timeout (the old z3 alone times out on many refutations that the others decide in a fraction of a second, and an
// unrefuted branch costs a whole path of obligations).
func raceRefute(ctx context.Context, file, txt string, timeout int) string {
	cctx, cancel := context.WithCancel(ctx)
	defer cancel()
	ch := make(chan string, 3)
	n := 0
	for _, i := range []int{0, 1, 4} {
		sp := solvers[i]
		f := file
		if sp.pre != "" {
			f = file + ".cvc5.smt2"
			os.WriteFile(f, []byte(sp.pre+txt), 0644)
			defer os.Remove(f)
		}
		n++
		go func() { st, _ := runSolver(cctx, sp, f, timeout); ch <- st }()
	}
	last := "timeout"
	for i := 0; i < n; i++ {
		st := <-ch
		if st == "unsat" {
			return st
		}
		if st == "sat" {
			last = st
		}
	}
	return last
}

// feasibleCond: can cond hold on this path? Quantified hypotheses and axioms are kept (the byte-string algebra is needed to
// evaluate reads of symbolic wire data); "unknown" counts as feasible.
func (x *Exec) feasibleCond(st *State, cond string) bool {
	cmds := append(append([]string{}, st.cmds...), "(assert "+cond+")")
	gs := map[string]bool{}
	for g := range st.groups {
		gs[g] = true
	}
	if x.c != nil {
		for _, g := range x.c.Groups {
			gs[g] = true
		}
	}
	o := &Obligation{Name: "feasibility", Cmds: cmds, Goal: "false", Groups: gs}
	txt := x.e.smtText(o, false)
	if len(txt) > maxSMTSize {
		return true
	}
	dir := filepath.Join(outBase(), "tmp")
	os.MkdirAll(dir, 0755)
	x.e.feasN++
	file := filepath.Join(dir, fmt.Sprintf("feas_%d_%d.smt2", os.Getpid(), x.e.feasN))
	os.WriteFile(file, []byte(txt), 0644)
	if os.Getenv("P9VC_KEEPFEAS") == "" {
		defer os.Remove(file)
	}
	t0 := time.Now()
	status := raceRefute(context.Background(), file, txt, 1)
	x.feasCalls++
	if os.Getenv("P9VC_TRACE") != "" {
		fmt.Fprintf(os.Stderr, "feasible? %s %.2fs %.80s\n", status, time.Since(t0).Seconds(), cond)
	}
	return status != "unsat"
}

// feasibleWithin: like feasibleCond(st, "true") with a longer budget; "unknown" counts as feasible.
func (x *Exec) feasibleWithin(st *State, timeout int) bool {
	gs := map[string]bool{}
	for g := range st.groups {
		gs[g] = true
	}
	if x.c != nil {
		for _, g := range x.c.Groups {
			gs[g] = true
		}
	}
	o := &Obligation{Name: "feasibility", Cmds: st.cmds, Goal: "false", Groups: gs}
	txt := x.e.smtText(o, false)
	if len(txt) > maxSMTSize {
		return true
	}
	dir := filepath.Join(outBase(), "tmp")
	os.MkdirAll(dir, 0755)
	x.e.feasN++
	file := filepath.Join(dir, fmt.Sprintf("feas_%d_%d.smt2", os.Getpid(), x.e.feasN))
	os.WriteFile(file, []byte(txt), 0644)
	defer os.Remove(file)
	x.feasCalls++
	return raceRefute(context.Background(), file, txt, timeout) != "unsat"
}

// refuteEither asks both "can cond hold?" and "can its negation hold?" at once; refutations are quick, so the answer
// usually arrives long before the other query (satisfiable, hence slow with quantified axioms) would time out.
// Returns which sides are refuted.
func (x *Exec) refuteEither(st *State, cond string) (condImpossible, negImpossible bool) {
	gs := map[string]bool{}
	for g := range st.groups {
		gs[g] = true
	}
	if x.c != nil {
		for _, g := range x.c.Groups {
			gs[g] = true
		}
	}
	dir := filepath.Join(outBase(), "tmp")
	os.MkdirAll(dir, 0755)
	mk := func(c string) (string, string) {
		cmds := append(append([]string{}, st.cmds...), "(assert "+c+")")
		o := &Obligation{Name: "feasibility", Cmds: cmds, Goal: "false", Groups: gs}
		txt := x.e.smtText(o, false)
		if len(txt) > maxSMTSize {
			return "", ""
		}
		x.e.feasN++
		file := filepath.Join(dir, fmt.Sprintf("feas_%d_%d.smt2", os.Getpid(), x.e.feasN))
		os.WriteFile(file, []byte(txt), 0644)
		return file, txt
	}
	f1, t1 := mk(cond)
	f2, t2 := mk(not(cond))
	if f1 == "" || f2 == "" {
		return false, false
	}
	defer os.Remove(f1)
	defer os.Remove(f2)
	ctx, cancel := context.WithCancel(context.Background())
	defer cancel()
	type r struct {
		which  int
		status string
	}
	ch := make(chan r, 2)
	go func() { ch <- r{1, raceRefute(ctx, f1, t1, 2)} }()
	go func() { ch <- r{2, raceRefute(ctx, f2, t2, 2)} }()
	x.feasCalls += 2
	for i := 0; i < 2; i++ {
		a := <-ch
		if a.status == "unsat" {
			if a.which == 1 {
				return true, false
			}
			return false, true
		}
	}
	return false, false
}

// pinHeaps replaces an axiom (forall ((hb_X S) ... other binders) body) by its instances at the heap constants of sort S
// that the script declares for heap X (H0_X, H_X!n, Hv_X!n). Solvers give up early on quantifiers over array-sorted
// variables when the script also stores into such arrays; the instances are all that E-matching would have used.
var heapArgRe = regexp.MustCompile(`\(u_[A-Za-z0-9_]+((?: (?:H0|Hv|H)_[A-Za-z0-9_]+(?:![0-9]+)?)+)`)

func pinHeaps(ax, script, goal string) string {
	const pre = "(assert (forall ("
	rest := ax[len(pre):]
	type hb struct{ name string }
	var hbs []string
	for strings.HasPrefix(rest, "(hb_") {
		// one binder: (hb_X <sort>) with a balanced sort
		depth, i := 0, 0
		for ; i < len(rest); i++ {
			if rest[i] == '(' {
				depth++
			} else if rest[i] == ')' {
				depth--
				if depth == 0 {
					break
				}
			}
		}
		binder := rest[1:i]
		hbs = append(hbs, binder[:strings.Index(binder, " ")])
		rest = strings.TrimLeft(rest[i+1:], " ")
	}
	if len(hbs) == 0 || strings.HasPrefix(rest, ")") {
		return ax // nothing to pin, or no other bound variable would remain
	}
	// the heap constants that occur as heap arguments of specification functions (u_f H... args) in the script or the axiom
	consts := map[string][]string{}
	seen := map[string]bool{}
	for _, m := range heapArgRe.FindAllStringSubmatch(script+"\n"+goal, -1) {
		for _, h := range strings.Fields(m[1]) {
			if seen[h] {
				continue
			}
			seen[h] = true
			name := h
			if i := strings.Index(name, "!"); i > 0 {
				name = name[:i]
			}
			sid := name[strings.Index(name, "_")+1:]
			consts[sid] = append(consts[sid], h)
		}
	}
	insts := []string{pre + rest}
	for _, h := range hbs {
		cs := consts[strings.TrimPrefix(h, "hb_")]
		if len(cs) == 0 {
			return ax
		}
		re := regexp.MustCompile(regexp.QuoteMeta(h) + `\b`)
		var next []string
		for _, in := range insts {
			for _, c := range cs {
				next = append(next, re.ReplaceAllLiteralString(in, c))
			}
		}
		insts = next
	}
	return strings.Join(insts, "\n")
}
