package main

// Process-level parallelism for properties made of many independent verifications (C01: one symbolic execution of the
// codec per message kind). The parent plans jobs (a function, optionally restricted to some of its `foreach` cases),
// runs `p9vc worker` children on them and merges their solved obligations; everything downstream (sites, findings,
// evidence, vacuity guards) is unchanged.

import (
	"encoding/json"
	"fmt"
	"os"
	"os/exec"
	"path/filepath"
	"sort"
	"strconv"
	"strings"
	"sync"
	"time"
)

type job struct {
	Funcs []string `json:"funcs"`
	Cases string   `json:"cases"` // for a single foreach function: the cases of this job (space separated); "" = all
}

type jobResult struct {
	Reports       []*FuncReport   `json:"reports"`
	UsedExterns   []string        `json:"used_externs"`
	UsedContracts []string        `json:"used_contracts"`
	Notes         []string        `json:"notes"`
	StructCount   int             `json:"struct_count"`
}

// planJobs splits the work when it is large: foreach functions in chunks of cases, the rest in one job.
func (e *Engine) planJobs(names []string) []job {
	units := 0
	for _, n := range names {
		if c := e.contracts[n]; c != nil && len(c.Foreach) > 0 {
			units += len(c.Foreach)
		} else {
			units++
		}
	}
	if units < 40 {
		return nil
	}
	var jobs []job
	var rest []string
	for _, n := range names {
		c := e.contracts[n]
		if c == nil || len(c.Foreach) < 6 {
			rest = append(rest, n)
			continue
		}
		if !c.Prune {
			// cheap per case: one process for the whole function (process start-up costs more than a case)
			jobs = append(jobs, job{Funcs: []string{n}})
			continue
		}
		// path exploration with solver-guided pruning is the slow kind: a few cases per process, stat kinds alone
		var cur []string
		flush := func() {
			if len(cur) > 0 {
				jobs = append(jobs, job{Funcs: []string{n}, Cases: strings.Join(cur, " ")})
				cur = nil
			}
		}
		for _, k := range c.Foreach {
			if strings.Contains(k, "stat") {
				jobs = append(jobs, job{Funcs: []string{n}, Cases: k})
				continue
			}
			cur = append(cur, k)
			if len(cur) == 5 {
				flush()
			}
		}
		flush()
	}
	if len(rest) > 0 {
		jobs = append(jobs, job{Funcs: rest})
	}
	return jobs
}

func (e *Engine) runJobs(id string, jobs []job, timeout int) []*FuncReport {
	dir := filepath.Join(outBase(), "jobs_"+id)
	os.RemoveAll(dir)
	os.MkdirAll(dir, 0755)
	results := make([]*jobResult, len(jobs))
	var wg sync.WaitGroup
	sem := make(chan struct{}, 3)
	failed := false
	var mu sync.Mutex
	for i, j := range jobs {
		wg.Add(1)
		sem <- struct{}{}
		go func(i int, j job) {
			defer wg.Done()
			defer func() { <-sem }()
			jf := filepath.Join(dir, fmt.Sprintf("job%d.json", i))
			of := filepath.Join(dir, fmt.Sprintf("out%d.json", i))
			data, _ := json.Marshal(j)
			os.WriteFile(jf, data, 0644)
			t0 := time.Now()
			defer func() {
				if os.Getenv("P9VC_TRACE") != "" {
					fmt.Fprintf(os.Stderr, "job %d %v %s: %.1fs\n", i, j.Funcs[0], j.Cases, time.Since(t0).Seconds())
				}
			}()
			cmd := exec.Command(os.Args[0], "worker", jf, of, strconv.Itoa(timeout))
			cmd.Env = append(os.Environ(), "P9VC_OUTSUB="+fmt.Sprintf("%s_w%d", id, i))
			out, err := cmd.CombinedOutput()
			var r jobResult
			if data, rerr := os.ReadFile(of); err != nil || rerr != nil || json.Unmarshal(data, &r) != nil {
				mu.Lock()
				failed = true
				fmt.Printf("note: worker %d failed: %v %s\n", i, err, firstLines(string(out), 3))
				mu.Unlock()
				return
			}
			results[i] = &r
		}(i, j)
	}
	wg.Wait()
	if failed {
		return nil
	}
	// merge, keeping one report per function in name order
	byName := map[string]*FuncReport{}
	var order []string
	for _, r := range results {
		for _, rep := range r.Reports {
			if m := byName[rep.Name]; m != nil {
				m.Obligations = append(m.Obligations, rep.Obligations...)
				m.Errors = append(m.Errors, rep.Errors...)
				m.Paths += rep.Paths
				m.Trivial += rep.Trivial
				m.FeasCalls += rep.FeasCalls
				m.Blocking = append(m.Blocking, rep.Blocking...)
			} else {
				byName[rep.Name] = rep
				order = append(order, rep.Name)
			}
		}
		for _, n := range r.UsedExterns {
			e.usedExterns[n] = true
		}
		for _, n := range r.UsedContracts {
			e.usedContracts[n] = true
		}
		for _, n := range r.Notes {
			e.notes[n] = true
		}
		e.structCount += r.StructCount
	}
	sort.Strings(order)
	var reps []*FuncReport
	for _, n := range order {
		reps = append(reps, byName[n])
	}
	return reps
}

// workerMain: verify the job's functions, solve their obligations, write the result.
func (e *Engine) workerMain(jobFile, outFile, timeoutS string) int {
	var j job
	data, err := os.ReadFile(jobFile)
	if err != nil || json.Unmarshal(data, &j) != nil {
		return 2
	}
	timeout, _ := strconv.Atoi(timeoutS)
	if j.Cases != "" {
		os.Setenv("P9VC_CASE", j.Cases)
	}
	var res jobResult
	var obls []*Obligation
	for _, n := range j.Funcs {
		r := e.verifyFunc(n)
		res.Reports = append(res.Reports, r)
		obls = append(obls, r.Obligations...)
	}
	outDir := filepath.Join(outBase(), os.Getenv("P9VC_OUTSUB"))
	os.RemoveAll(outDir)
	var pending []*Obligation
	for _, o := range obls {
		if o.Status == "" {
			pending = append(pending, o)
		}
	}
	e.solveAll(pending, outDir, timeout, 3)
	for _, o := range obls {
		o.Cmds = nil // not needed by the parent (failed obligations keep their SMT file on disk)
	}
	for n := range e.usedExterns {
		res.UsedExterns = append(res.UsedExterns, n)
	}
	for n := range e.usedContracts {
		res.UsedContracts = append(res.UsedContracts, n)
	}
	for n := range e.notes {
		res.Notes = append(res.Notes, n)
	}
	res.StructCount = e.structCount
	out, err := json.Marshal(res)
	if err != nil {
		return 2
	}
	if os.WriteFile(outFile, out, 0644) != nil {
		return 2
	}
	return 0
}
