package main

import (
	"fmt"
	"sort"
	"go/token"
	"go/types"
	"strings"

	"golang.org/x/tools/go/ssa"
)

// chanName derives the source-level name through which a channel operand is accessed.
func chanName(v ssa.Value) string {
	switch v := v.(type) {
	case *ssa.UnOp:
		if v.Op == token.MUL {
			return chanName(v.X)
		}
	case *ssa.Alloc:
		return v.Comment
	case *ssa.FreeVar:
		return v.Name()
	case *ssa.Parameter:
		return v.Name()
	case *ssa.FieldAddr:
		st := v.X.Type().Underlying().(*types.Pointer).Elem().Underlying().(*types.Struct)
		return st.Field(v.Field).Name()
	case *ssa.Field:
		st := v.X.Type().Underlying().(*types.Struct)
		return st.Field(v.Field).Name()
	case *ssa.Call:
		// ctx.Done() and the like
		if v.Call.IsInvoke() {
			return chanName(v.Call.Value) + "." + v.Call.Method.Name() + "()"
		}
	case *ssa.MakeChan:
		return "make"
	}
	return "?"
}

// chanDecl finds the channel invariant declared for name in fn or one of its lexical parents.
func (e *Engine) chanDecl(fn *ssa.Function, name string) *ChanDecl {
	for f := fn; f != nil; f = f.Parent() {
		if d := e.chans[e.shortName(f)+"/"+name]; d != nil {
			return d
		}
	}
	if fn.Pkg != nil {
		return e.chans[fn.Pkg.Pkg.Name()+"."+name]
	}
	for f := fn; f != nil; f = f.Parent() {
		if f.Pkg != nil {
			return e.chans[f.Pkg.Pkg.Name()+"."+name]
		}
	}
	return nil
}

func (x *Exec) chanInv(st *State, fr *frame, d *ChanDecl, m Val) (string, bool) {
	ctx := x.localCtx(st, fr, nil)
	ctx.pkg = d.Pkg
	ctx.vars["m"] = m
	t, err := x.evalClause(st, ctx, d.Inv)
	if err != nil {
		x.errs = append(x.errs, err.Error())
		return "false", false
	}
	return t, true
}

func (x *Exec) chanMade(st *State, fr *frame, in *ssa.MakeChan, loc string) {
	sz := x.val(st, fr, in.Size)
	st.ghostWrite(st.ghost("chancap"), loc, sz.T)
	st.assume(not(st.ghostRead(st.ghost("closedch"), loc)))
}

func (x *Exec) chanClose(st *State, fr *frame, ch Val, pos token.Pos) {
	x.obligeAt(st, fr, "close-nil-chan", pos, "", "(not (= "+st.term(ch)+" 0))")
	x.obligeAt(st, fr, "close-closed-chan", pos, "", not(st.ghostRead(st.ghost("closedch"), st.term(ch))))
	st.ghostWrite(st.ghost("closedch"), st.term(ch), "true")
	x.event(st, "close", st.term(ch))
}

// event appends to the ghost event log (used by structural/trace obligations).
func (x *Exec) event(st *State, kind string, args ...string) {
	st.ghostLog = append(st.ghostLog[:len(st.ghostLog):len(st.ghostLog)], kind+"("+strings.Join(args, ",")+")")
}

func (x *Exec) recvVal(st *State, fr *frame, chv ssa.Value, et types.Type) Val {
	v := st.fresh("rcv", et)
	st.assumeAllocated(et, v.T)
	if d := x.e.chanDecl(fr.fn, chanName(chv)); d != nil {
		if t, ok := x.chanInv(st, fr, d, v); ok {
			st.assume(t)
		}
	}
	return v
}

// signalChan: channels of struct{} are only ever closed, never sent on (verified by scanning every send in the analysed packages).
func (e *Engine) signalChan(t types.Type) bool {
	ch, ok := t.Underlying().(*types.Chan)
	if !ok {
		return false
	}
	st, ok := ch.Elem().Underlying().(*types.Struct)
	if !ok || st.NumFields() != 0 {
		return false
	}
	if e.signalChecked == 0 {
		e.signalChecked = 1
		for fn := range e.allFuncs {
			if !e.analysed(fn) {
				continue
			}
			for _, b := range fn.Blocks {
				for _, in := range b.Instrs {
					var ct types.Type
					switch in := in.(type) {
					case *ssa.Send:
						ct = in.Chan.Type()
					case *ssa.Select:
						for _, s := range in.States {
							if s.Dir == types.SendOnly {
								if c2, ok := s.Chan.Type().Underlying().(*types.Chan); ok {
									if s2, ok := c2.Elem().Underlying().(*types.Struct); ok && s2.NumFields() == 0 {
										e.signalChecked = 2
									}
								}
							}
						}
					}
					if ct != nil {
						if c2, ok := ct.Underlying().(*types.Chan); ok {
							if s2, ok := c2.Elem().Underlying().(*types.Struct); ok && s2.NumFields() == 0 {
								e.signalChecked = 2
							}
						}
					}
				}
			}
		}
	}
	return e.signalChecked == 1
}

func (x *Exec) doRecv(st *State, fr *frame, in *ssa.UnOp, ch Val) Val {
	et := in.X.Type().Underlying().(*types.Chan).Elem()
	if x.e.signalChan(in.X.Type()) {
		st.assume(st.ghostRead(st.ghost("closedch"), st.term(ch)))
	}
	x.blockingOp(st, fr, in.Pos(), "recv "+chanName(in.X), []string{chanName(in.X)})
	v := x.recvVal(st, fr, in.X, et)
	if in.CommaOk {
		ok := st.fresh("rok", types.Typ[types.Bool])
		return Val{Tuple: []Val{v, ok}, Ty: in.Type()}
	}
	return v
}

func (x *Exec) doSend(st *State, fr *frame, chv, xv ssa.Value, pos token.Pos, blocking bool) {
	v := x.val(st, fr, xv)
	name := chanName(chv)
	if d := x.e.chanDecl(fr.fn, name); d != nil {
		if t, ok := x.chanInv(st, fr, d, v); ok {
			x.obligeAt(st, fr, "send-inv", pos, name, t)
		}
	}
	x.event(st, "send:"+name, st.term(v))
	x.sendHook(st, fr, name, v, pos)
	// ownership transfer: once a pointer has been sent, the receiving goroutine may change the object-attached ghost
	// state (zero-initialised ledgers) of the object at any time; the sender knows nothing about it any more
	if _, isPtr := v.Ty.Underlying().(*types.Pointer); isPtr && x.e.chanDecl(fr.fn, name) != nil {
		for _, gn := range x.e.zeroGhosts() {
			g := x.e.ghosts[gn]
			nv := st.freshSort("xfer", x.e.sortOf(g.Ty))
			st.ghostWrite(g, st.term(v), nv)
		}
	}
	if blocking {
		x.blockingOp(st, fr, pos, "send "+name, []string{name})
	}
}

// blockingOp records a blocking channel operation together with the alternatives it waits on (structural progress obligations).
func (x *Exec) blockingOp(st *State, fr *frame, pos token.Pos, what string, alts []string) {
	key := x.e.shortName(fr.fn) + "|" + shortPos(x.e.fset, pos)
	if x.blocking == nil {
		x.blocking = map[string]*blockSite{}
	}
	if _, ok := x.blocking[key]; !ok {
		x.blocking[key] = &blockSite{Func: x.e.shortName(fr.fn), Pos: shortPos(x.e.fset, pos), What: what, Alts: alts}
	}
}

type blockSite struct {
	Func, Pos, What string
	Alts            []string
}

func (x *Exec) doSelect(st *State, fr *frame, in *ssa.Select) []callOut {
	e := x.e
	tup := in.Type().(*types.Tuple)
	var alts []string
	for _, s := range in.States {
		alts = append(alts, chanName(s.Chan))
	}
	if in.Blocking {
		x.blockingOp(st, fr, in.Pos(), "select", alts)
	}
	var outs []callOut
	n := len(in.States)
	mk := func(s *State, idx int) []Val {
		vals := []Val{{T: fmt.Sprint(idx), Ty: tup.At(0).Type()}, s.fresh("rok", types.Typ[types.Bool])}
		if idx < 0 {
			vals[0].T = "(- 1)"
		}
		k := 2
		for j, sj := range in.States {
			if sj.Dir != types.RecvOnly {
				continue
			}
			et := sj.Chan.Type().Underlying().(*types.Chan).Elem()
			if j == idx {
				vals = append(vals, x.recvVal(s, fr, sj.Chan, et))
			} else {
				vals = append(vals, Val{T: e.zero(et), Ty: et})
			}
			k++
		}
		return vals
	}
	total := n
	if !in.Blocking {
		total++
	}
	for idx := 0; idx < total; idx++ {
		s := st
		if idx < total-1 {
			s = st.clone()
		}
		if idx == n { // default: taken only if no case is ready; a closed channel is always ready to receive
			s.note("select default")
			for _, sj := range in.States {
				if sj.Dir == types.RecvOnly {
					cv := x.val(s, fr, sj.Chan)
					s.assume(not(s.ghostRead(s.ghost("closedch"), s.term(cv))))
				}
			}
			outs = append(outs, callOut{st: s, val: Val{Tuple: mk(s, -1), Ty: tup}})
			continue
		}
		sj := in.States[idx]
		s.note("select case %d (%s)", idx, chanName(sj.Chan))
		if sj.Dir == types.RecvOnly && x.e.signalChan(sj.Chan.Type()) {
			// a channel of struct{} is never sent on in the analysed packages (checked): receiving means it is closed
			cv := x.val(s, fr, sj.Chan)
			s.assume(s.ghostRead(s.ghost("closedch"), s.term(cv)))
		}
		f2 := fr
		if sj.Dir == types.SendOnly {
			x.doSend(s, f2, sj.Chan, sj.Send, sj.Pos, false)
		}
		outs = append(outs, callOut{st: s, val: Val{Tuple: mk(s, idx), Ty: tup}})
	}
	return outs
}

func (x *Exec) doGo(st *State, fr *frame, in *ssa.Go) {
	c := &in.Call
	name := "?"
	if fn := c.StaticCallee(); fn != nil {
		name = x.e.shortName(fn)
	} else if c.IsInvoke() {
		name = invokeName(c)
	}
	var args []string
	for _, a := range c.Args {
		v := x.val(st, fr, a)
		if v.T != "" {
			args = append(args, v.T)
		}
	}
	x.event(st, "go:"+name, args...)
	x.goHook(st, fr, in, name)
	// the spawned function's precondition is an obligation of the spawner
	if fn := c.StaticCallee(); fn != nil {
		if ct := x.e.contracts[x.e.shortName(fn)]; ct != nil && len(ct.Requires) > 0 {
			ctx := &SpecCtx{s: st, vars: map[string]Val{}, pkg: ct.Pkg}
			for i, p := range fn.Params {
				if i < len(c.Args) {
					ctx.vars[p.Name()] = x.val(st, fr, c.Args[i])
				}
			}
			if mc, ok := c.Value.(*ssa.MakeClosure); ok {
				for i, fv := range fn.FreeVars {
					bv := x.val(st, fr, mc.Bindings[i])
					if bv.Addr != nil {
						ctx.vars[fv.Name()] = st.load(bv.Addr)
					}
				}
			}
			for i, r := range ct.Requires {
				t, err := x.evalClause(st, ctx, r)
				if err != nil {
					x.errs = append(x.errs, err.Error())
					t = "false"
				}
				x.obligeAt(st, fr, "pre-go", in.Pos(), shortCallee(x.e.shortName(fn))+"/"+clauseName("requires", i, r), t)
			}
		}
	}
	// ownership: locals captured by the spawned closure must not be owner-only tables (checked structurally elsewhere)
}

// ---- range over maps

type rangeIter struct {
	m   Val
	ty  types.Type
	str bool
}

func (x *Exec) startRange(st *State, fr *frame, in *ssa.Range, v Val) Val {
	return Val{T: st.term(v), Ty: in.X.Type()}
}

func (x *Exec) doNext(st *State, fr *frame, in *ssa.Next) []callOut {
	e := x.e
	it := x.val(st, fr, in.Iter)
	tup := in.Type().(*types.Tuple)
	if in.IsString {
		x.fail(st, "range-string", "")
		return nil
	}
	mt := it.Ty.Underlying().(*types.Map)
	// exhausted
	s1 := st.clone()
	s1.note("range: exhausted")
	done := Val{Tuple: []Val{{T: "false", Ty: types.Typ[types.Bool]}, {T: e.zero(mt.Key()), Ty: mt.Key()}, {T: e.zero(mt.Elem()), Ty: mt.Elem()}}, Ty: tup}
	// one more element: an arbitrary key present in the map
	k := st.fresh("rk", mt.Key())
	st.assume("(not (= " + it.T + " 0))")
	st.assume(st.mapHas(it.Ty, it.T, k.T))
	v := Val{T: st.name("rv", e.sortOf(mt.Elem()), st.mapVal(it.Ty, it.T, k.T)), Ty: mt.Elem()}
	st.assume(e.typeInv(mt.Elem(), v.T))
	st.assumeAllocated(mt.Elem(), v.T)
	st.note("range: next element")
	more := Val{Tuple: []Val{{T: "true", Ty: types.Typ[types.Bool]}, k, v}, Ty: tup}
	return []callOut{{st: s1, val: done}, {st: st, val: more}}
}

// hooks filled in by property-specific ledgers
func (x *Exec) allocHook(st *State, fr *frame, in *ssa.MakeSlice, et types.Type, n string) {
	if x.onAlloc != nil {
		x.onAlloc(st, fr, in, et, n)
	}
}
// sendHook evaluates the contract's `site <chan>#<k>: expr` obligations at the k-th send site (in source order) on channel <chan>.
func (x *Exec) sendHook(st *State, fr *frame, name string, v Val, pos token.Pos) {
	ct := x.e.contracts[x.e.shortName(fr.fn)]
	if ct == nil || len(ct.Sites) == 0 {
		return
	}
	k := x.e.sendOrdinal(fr.fn, name, pos)
	want := fmt.Sprintf("%s#%d", name, k)
	for i, cl := range ct.Sites {
		if cl.Label != want {
			continue
		}
		x.e.hookHits[ct.Name+"|site "+cl.Label] = true
		ctx := x.localCtx(st, fr, nil)
		ctx.vars["m"] = v
		t, err := x.evalClause(st, ctx, cl)
		if err != nil {
			x.errs = append(x.errs, err.Error())
			t = "false"
		}
		x.oblige(st, fr.fn, "site", clauseName("site", i, cl), t)
	}
}

// sendOrdinal numbers the send sites on a channel name within a function by source position.
func (e *Engine) sendOrdinal(fn *ssa.Function, name string, pos token.Pos) int {
	key := e.shortName(fn) + "|" + name
	ps, ok := e.sendSites[key]
	if !ok {
		for _, b := range fn.Blocks {
			for _, in := range b.Instrs {
				switch in := in.(type) {
				case *ssa.Send:
					if chanName(in.Chan) == name {
						ps = append(ps, in.Pos())
					}
				case *ssa.Select:
					for _, s := range in.States {
						if s.Dir == types.SendOnly && chanName(s.Chan) == name {
							ps = append(ps, s.Pos)
						}
					}
				}
			}
		}
		sort.Slice(ps, func(i, j int) bool { return ps[i] < ps[j] })
		e.sendSites[key] = ps
	}
	for i, p := range ps {
		if p == pos {
			return i + 1
		}
	}
	return 0
}

// goHook counts goroutine spawns in the ghost counter spawned (key 0), so that invariants can relate it to bookkeeping.
func (x *Exec) goHook(st *State, fr *frame, in *ssa.Go, name string) {
	c := st.heapTerm("gh:$spawned", "Int")
	st.setHeap("gh:$spawned", "Int", "(+ "+c+" 1)")
}
