package main

import (
	"fmt"
	"go/token"
	"go/types"

	"golang.org/x/tools/go/ssa"
)

type regFn func(name, doc string, f externFn, mods ...string)

func (e *Engine) builtinGhosts() {
	e.ghosts["rem"] = &GhostDecl{Name: "rem", Ty: specBytes}         // unread input of a reader (prophecy of what the peer sends)
	e.ghosts["out"] = &GhostDecl{Name: "out", Ty: specBytes}         // bytes written to a writer so far
	e.ghosts["cancelled"] = &GhostDecl{Name: "cancelled", Ty: specBool} // context is done
	e.ghosts["closedch"] = &GhostDecl{Name: "closedch", Ty: specBool}  // channel is closed
	e.ghosts["held"] = &GhostDecl{Name: "held", Ty: specBool}          // mutex held by the current thread
	e.ghosts["released"] = &GhostDecl{Name: "released", Ty: specBool}  // resource ledger
	e.ghosts["oncedone"] = &GhostDecl{Name: "oncedone", Ty: specBool} // sync.Once has run
	e.ghosts["chancap"] = &GhostDecl{Name: "chancap", Ty: specInt}     // capacity of a channel (set at make)
	e.ghosts["cancels"] = &GhostDecl{Name: "cancels", Ty: specInt}     // cancel function -> identity of the context it cancels
}

// refOf yields the identity (Int) of a reader/writer/context value.
func refOf(st *State, v Val) string {
	if _, ok := v.Ty.Underlying().(*types.Interface); ok {
		return "(i_ref " + v.T + ")"
	}
	return st.term(v)
}

func (st *State) ghost(name string) *GhostDecl { return st.e.ghosts[name] }

// anyError yields an arbitrary non-nil error value of a dynamic type outside the analysed packages
// (I/O errors: io.EOF, io.ErrUnexpectedEOF, net errors, ...) and records that an I/O failure happened.
func anyError(st *State, t types.Type) Val {
	v := st.fresh("ioerr", t)
	st.assume(fmt.Sprintf("(> (i_tag %s) %d)", v.T, maxKnownTag))
	st.markIOFail()
	v.NonNil = true
	return v
}

func nilError(t types.Type) Val { return Val{T: "(mk_iface 0 0)", Ty: t} }

// writeWindow replaces the content of the []byte window sl by the byte string b (blen b = len sl).
func (st *State) writeWindow(sl string, b string) {
	e := st.e
	e.needWin()
	st.groups["bytes"] = true
	id, sort, h := st.elemHeap(types.Typ[types.Uint8])
	h2 := e.freshName("H_" + sanitize(id))
	st.declare(h2, sort)
	base, off, ln := "(s_base "+sl+")", "(s_off "+sl+")", "(s_len "+sl+")"
	st.assume("(forall ((b Int)) (! (=> (not (= b " + base + ")) (= (select " + h2 + " b) (select " + h + " b))) :pattern ((select " + h2 + " b))))")
	st.assume("(forall ((k Int)) (! (=> (or (< k " + off + ") (>= k (+ " + off + " " + ln + "))) (= (select (select " + h2 + " " + base + ") k) (select (select " + h + " " + base + ") k))) :pattern ((select (select " + h2 + " " + base + ") k))))")
	st.assume("(= (win (select " + h2 + " " + base + ") " + off + " " + ln + ") " + b + ")")
	st.heapTerm(id, sort)
	st.heap[id] = h2
}

func intKindSize(t types.Type) int {
	_, _, bits, _ := intRange(t)
	return int(bits / 8)
}

func (e *Engine) registerIOExterns(reg regFn) {
	e.builtinGhosts()
	errT := types.Universe.Lookup("error").Type()
	intT := types.Typ[types.Int]

	reg("encoding/binary.Size", "binary.Size of a fixed-size integer value is its width in bytes", func(x *Exec, st *State, fr *frame, c *ssa.CallCommon, args []Val, pos token.Pos) []callOut {
		v := args[0]
		if v.Dyn != nil {
			t := v.Dyn
			if p, ok := t.Underlying().(*types.Pointer); ok {
				t = p.Elem()
			}
			if n := intKindSize(t); n > 0 {
				return one(st, Val{T: fmt.Sprint(n), Ty: intT})
			}
		}
		r := st.fresh("binsize", intT)
		return one(st, r)
	})

	reg("encoding/binary.Read", "binary.Read(r, LE, *uintN): if at least N bytes remain: consumes exactly N bytes, stores their little-endian value, nil error; otherwise (or on an I/O error) a non-nil error and an arbitrary part of the input consumed; independent of how the underlying reads are chunked",
		func(x *Exec, st *State, fr *frame, c *ssa.CallCommon, args []Val, pos token.Pos) []callOut {
			e := x.e
			e.needBytes()
			st.groups["bytes"] = true
			r, data := args[0], args[2]
			g := st.ghost("rem")
			ref := refOf(st, r)
			R := st.name("R", "Bytes", st.ghostRead(g, ref))
			var target *Addr
			var n int
			var tt types.Type
			inMem := x.dynIs(st, r, "*bytes.Reader")
			if data.Dyn != nil && data.Payload != nil {
				if p, ok := data.Dyn.Underlying().(*types.Pointer); ok {
					if isByteSlice(p.Elem()) {
						// binary.Read(r, order, *[]byte) fills the slice the pointer refers to, like io.ReadFull
						a := x.addrOf(st, fr, *data.Payload, pos, "binary.Read")
						sl := st.load(a)
						return x.readFull(st, r, sl, inMem, true)
					}
					n = intKindSize(p.Elem())
					tt = p.Elem()
					if n > 0 {
						target = x.addrOf(st, fr, *data.Payload, pos, "binary.Read")
					}
				}
			}
			if n == 0 {
				x.fail(st, "binary.Read", "target type not modelled")
				return nil
			}
			// failure
			s2 := st.clone()
			s2.note("binary.Read fails")
			k := s2.freshSort("k", "Int")
			s2.assume(and("(<= 0 "+k+")", "(<= "+k+" (blen "+R+"))"))
			if inMem {
				// an in-memory reader fails only for lack of input, and then consumes what is left
				s2.assumePC("(< (blen " + R + ") " + fmt.Sprint(n) + ")")
				s2.assume("(= " + k + " (blen " + R + "))")
			}
			s2.ghostWrite(g, ref, "(bdrop "+R+" "+k+")")
			if !inMem {
				fv := s2.fresh("partial", tt)
				s2.store(target, fv)
			}
			out2 := callOut{st: s2, val: x.eofError(s2, errT, inMem, "(= (blen "+R+") 0)")}
			if inMem {
				st.assumePC(fmt.Sprintf("(>= (blen %s) %d)", R, n))
			}
			// success
			st.note("binary.Read succeeds")
			st.assume(fmt.Sprintf("(>= (blen %s) %d)", R, n))
			st.store(target, Val{T: fmt.Sprintf("(dec%d (btake %s %d))", n, R, n), Ty: tt})
			R2 := st.name("R", "Bytes", fmt.Sprintf("(bdrop %s %d)", R, n))
			st.assume(fmt.Sprintf("(= (blen %s) (- (blen %s) %d))", R2, R, n)) // implied (blen_drop); stated to spare the solver the chain
			st.ghostWrite(g, ref, R2)
			return []callOut{{st: st, val: nilError(errT)}, out2}
		}, "gh:rem", "gh:$iofail", "$inttargets")

	reg("io.ReadFull", "io.ReadFull(r, p): if at least len(p) bytes remain: fills p with exactly the next len(p) bytes, returns (len(p), nil); otherwise (or on an I/O error) returns (k, err != nil) with k < len(p) (k = 0 allowed for len(p) = 0 only with nil error), p's window arbitrary, part of the input consumed",
		func(x *Exec, st *State, fr *frame, c *ssa.CallCommon, args []Val, pos token.Pos) []callOut {
			e := x.e
			e.needBytes()
			st.groups["bytes"] = true
			return x.readFull(st, args[0], args[1], x.dynIs(st, args[0], "*bytes.Reader"), false)
		}, "gh:rem", "E:uint8", "gh:$iofail")

	reg("io.CopyN", "io.CopyN(io.Discard, r, n): if at least n bytes remain: consumes exactly n bytes, returns (n, nil); otherwise (or on an I/O error) (k < n, err != nil)",
		func(x *Exec, st *State, fr *frame, c *ssa.CallCommon, args []Val, pos token.Pos) []callOut {
			e := x.e
			e.needBytes()
			st.groups["bytes"] = true
			r, n := args[1], args[2]
			g := st.ghost("rem")
			ref := refOf(st, r)
			R := st.name("R", "Bytes", st.ghostRead(g, ref))
			i64 := types.Typ[types.Int64]
			s2 := st.clone()
			s2.note("io.CopyN fails")
			k := s2.freshSort("k", "Int")
			s2.assume(and("(<= 0 "+k+")", "(< "+k+" "+n.T+")", "(<= "+k+" (blen "+R+"))"))
			s2.ghostWrite(g, ref, "(bdrop "+R+" "+k+")")
			out2 := callOut{st: s2, val: Val{Tuple: []Val{{T: k, Ty: i64}, anyError(s2, errT)}}}
			// n <= 0 copies nothing
			st.note("io.CopyN succeeds")
			nn := "(ite (< " + n.T + " 0) 0 " + n.T + ")"
			st.assume("(>= (blen " + R + ") " + nn + ")")
			st.ghostWrite(g, ref, "(bdrop "+R+" "+nn+")")
			return []callOut{{st: st, val: Val{Tuple: []Val{{T: nn, Ty: i64}, nilError(errT)}}}, out2}
		}, "gh:rem", "gh:$iofail")

	reg("encoding/binary.Write", "binary.Write(w, LE, uintN): appends the N-byte little-endian encoding to the writer's output, nil error; or fails with a non-nil error having written an arbitrary part",
		func(x *Exec, st *State, fr *frame, c *ssa.CallCommon, args []Val, pos token.Pos) []callOut {
			e := x.e
			e.needBytes()
			st.groups["bytes"] = true
			w, data := args[0], args[2]
			g := st.ghost("out")
			ref := refOf(st, w)
			O := st.name("O", "Bytes", st.ghostRead(g, ref))
			n := 0
			var v, enc, encLen string
			if data.Dyn != nil && data.Payload != nil {
				if nn := intKindSize(data.Dyn); nn > 0 {
					n = nn
					v = data.Payload.T
				} else if p, ok := data.Dyn.Underlying().(*types.Pointer); ok && intKindSize(p.Elem()) > 0 {
					// pointer to a fixed-size integer: the pointee is written
					a := x.addrOf(st, fr, *data.Payload, pos, "binary.Write")
					n = intKindSize(p.Elem())
					v = st.load(a).T
				} else if isByteSlice(data.Dyn) {
					enc = st.name("W", "Bytes", st.window(data.Payload.T))
					encLen = "(s_len " + data.Payload.T + ")"
				}
			}
			if n > 0 {
				enc, encLen = fmt.Sprintf("(le%d %s)", n, v), fmt.Sprint(n)
			}
			if enc == "" {
				x.fail(st, "binary.Write", "value type not modelled")
				return nil
			}
			var outs []callOut
			if !x.dynIs(st, w, "*bytes.Buffer") {
				// writes to an in-memory buffer cannot fail
				s2 := st.clone()
				s2.note("binary.Write fails")
				junk := s2.freshSort("junk", "Bytes")
				s2.assume(fmt.Sprintf("(< (blen %s) %s)", junk, encLen))
				s2.ghostWrite(g, ref, "(bcat "+O+" "+junk+")")
				x.event(s2, "write-fail")
				outs = append(outs, callOut{st: s2, val: anyError(s2, errT)})
			}
			st.note("binary.Write succeeds")
			st.ghostWrite(g, ref, "(bcat "+O+" "+enc+")")
			x.event(st, "write", enc)
			return append([]callOut{{st: st, val: nilError(errT)}}, outs...)
		}, "gh:out", "gh:$iofail")

	reg("invoke:io.Writer.Write", "w.Write(p): appends p's bytes to the writer's output and returns (len(p), nil); or returns (k <= len(p), err != nil); or (for writers violating the io.Writer contract) (k < len(p), nil) having written k bytes",
		func(x *Exec, st *State, fr *frame, c *ssa.CallCommon, args []Val, pos token.Pos) []callOut {
			e := x.e
			e.needBytes()
			st.groups["bytes"] = true
			w, p := args[0], args[1]
			g := st.ghost("out")
			ref := refOf(st, w)
			O := st.name("O", "Bytes", st.ghostRead(g, ref))
			ln := "(s_len " + p.T + ")"
			W := st.name("W", "Bytes", st.window(p.T))
			// failure with error
			s2 := st.clone()
			s2.note("Write fails")
			k := s2.freshSort("k", "Int")
			s2.assume(and("(<= 0 "+k+")", "(<= "+k+" "+ln+")"))
			s2.ghostWrite(g, ref, "(bcat "+O+" (btake "+W+" "+k+"))")
			x.event(s2, "write-fail")
			out2 := callOut{st: s2, val: Val{Tuple: []Val{{T: k, Ty: intT}, anyError(s2, errT)}}}
			// short write without error
			s3 := st.clone()
			s3.note("Write is short without error")
			k3 := s3.freshSort("k", "Int")
			s3.assume(and("(<= 0 "+k3+")", "(< "+k3+" "+ln+")"))
			s3.ghostWrite(g, ref, "(bcat "+O+" (btake "+W+" "+k3+"))")
			s3.markIOFail()
			x.event(s3, "write-fail")
			out3 := callOut{st: s3, val: Val{Tuple: []Val{{T: k3, Ty: intT}, nilError(errT)}}}
			st.note("Write succeeds")
			st.ghostWrite(g, ref, "(bcat "+O+" "+W+")")
			x.event(st, "write", W)
			return []callOut{{st: st, val: Val{Tuple: []Val{{T: ln, Ty: intT}, nilError(errT)}}}, out2, out3}
		}, "gh:out", "gh:$iofail")

	reg("bufio.(*Writer).Flush", "bufio.Writer is a transparent byte pipe to the connection: Flush does not change the byte sequence written; it returns nil or an I/O error",
		func(x *Exec, st *State, fr *frame, c *ssa.CallCommon, args []Val, pos token.Pos) []callOut {
			s2 := st.clone()
			s2.note("Flush fails")
			x.event(s2, "flush-fail")
			x.event(st, "flush")
			return []callOut{{st: st, val: nilError(errT)}, {st: s2, val: anyError(s2, errT)}}
		}, "gh:$iofail")

	// ---- context / time / net.Conn
	reg("invoke:context.Context.Done", "ctx.Done(): the channel of ctx; it is closed iff ctx is cancelled",
		func(x *Exec, st *State, fr *frame, c *ssa.CallCommon, args []Val, pos token.Pos) []callOut {
			e := x.e
			e.d.add("done_of", "(declare-fun done_of (Int) Int)")
			ref := refOf(st, args[0])
			ch := "(done_of " + ref + ")"
			st.assume("(> " + ch + " 0)")
			st.assume(eq(st.ghostRead(st.ghost("closedch"), ch), st.ghostRead(st.ghost("cancelled"), ref)))
			return one(st, Val{T: ch, Ty: c.Signature().Results().At(0).Type()})
		})
	reg("invoke:context.Context.Err", "ctx.Err(): non-nil iff ctx is cancelled",
		func(x *Exec, st *State, fr *frame, c *ssa.CallCommon, args []Val, pos token.Pos) []callOut {
			ref := refOf(st, args[0])
			v := st.fresh("ctxerr", errT)
			st.assume(eq("(not (= (i_tag "+v.T+") 0))", st.ghostRead(st.ghost("cancelled"), ref)))
			st.assume("(or (= (i_tag " + v.T + ") 0) (> (i_tag " + v.T + ") " + fmt.Sprint(maxKnownTag) + "))")
			return one(st, v)
		})
	reg("invoke:error.Error", "err.Error(): a deterministic function of the error value (uninterpreted)", func(x *Exec, st *State, fr *frame, c *ssa.CallCommon, args []Val, pos token.Pos) []callOut {
		return one(st, x.e.errText(st, args[0]))
	})
	reg("context.WithCancel", "context.WithCancel(parent): a new context (cancelled whenever the parent is) and the function that cancels it", func(x *Exec, st *State, fr *frame, c *ssa.CallCommon, args []Val, pos token.Pos) []callOut {
		rs := c.Signature().Results()
		nctx := st.fresh("ctx", rs.At(0).Type())
		st.assume("(not (= (i_tag " + nctx.T + ") 0))")
		st.assume(eq("(i_ref "+nctx.T+")", st.newLoc("ctxobj")))
		cf := Val{T: st.newLoc("cancelfn"), Ty: rs.At(1).Type()}
		st.ghostWrite(st.ghost("cancels"), cf.T, "(i_ref "+nctx.T+")")
		x.e.d.add("ctx_parent", "(declare-fun ctx_parent (Int) Int)")
		st.assume("(= (ctx_parent (i_ref " + nctx.T + ")) " + refOf(st, args[0]) + ")")
		return one(st, Val{Tuple: []Val{nctx, cf}, Ty: rs})
	}, "gh:cancels", "alloc")
	reg("context.WithTimeout", "context.WithTimeout(parent, d): as WithCancel", func(x *Exec, st *State, fr *frame, c *ssa.CallCommon, args []Val, pos token.Pos) []callOut {
		rs := c.Signature().Results()
		nctx := st.fresh("ctx", rs.At(0).Type())
		st.assume("(not (= (i_tag " + nctx.T + ") 0))")
		cf := st.fresh("cancel", rs.At(1).Type())
		st.assume("(> " + cf.T + " 0)")
		st.ghostWrite(st.ghost("cancels"), cf.T, "(i_ref "+nctx.T+")")
		return one(st, Val{Tuple: []Val{nctx, cf}, Ty: rs})
	}, "gh:cancels")
	reg("context.WithValue", "context.WithValue: a context equivalent to its parent for cancellation", func(x *Exec, st *State, fr *frame, c *ssa.CallCommon, args []Val, pos token.Pos) []callOut {
		return one(st, args[0])
	})
	newObj := func(x *Exec, st *State, fr *frame, c *ssa.CallCommon, args []Val, pos token.Pos) []callOut {
		return one(st, Val{T: st.newLoc("obj"), Ty: c.Signature().Results().At(0).Type()})
	}
	reg("bufio.NewReaderSize", "returns a new non-nil reader object", newObj, "alloc")
	reg("bufio.NewWriterSize", "returns a new non-nil writer object", newObj, "alloc")
	reg("bufio.NewReader", "returns a new non-nil reader object", newObj, "alloc")
	reg("bufio.NewWriter", "returns a new non-nil writer object", newObj, "alloc")
	pureFresh := func(x *Exec, st *State, fr *frame, c *ssa.CallCommon, args []Val, pos token.Pos) []callOut {
		return one(st, st.fresh("ext", c.Signature().Results()))
	}
	for _, n := range []string{"invoke:context.Context.Deadline", "invoke:context.Context.Value", "time.Now", "time.(Time).Add",
		"invoke:net.Conn.SetReadDeadline", "invoke:net.Conn.SetWriteDeadline", "invoke:net.Conn.SetDeadline", "invoke:net.Conn.RemoteAddr", "invoke:net.Conn.LocalAddr",
		"invoke:net.Error.Timeout", "invoke:net.Error.Temporary"} {
		reg(n, "no effect on modelled state; arbitrary result", pureFresh)
	}
}

// markIOFail bumps the ghost counter of I/O failures (monotone; iofailed() compares it with its old() value).
func (st *State) markIOFail() {
	c := st.heapTerm("gh:$iofail", "Int")
	st.setHeap("gh:$iofail", "Int", "(+ "+c+" 1)")
}

// errText: err.Error() as an uninterpreted function of the error value.
func (e *Engine) errText(st *State, v Val) Val {
	e.d.add("errtext", "(declare-fun errtext (Iface) Str)")
	return Val{T: "(errtext " + v.T + ")", Ty: types.Typ[types.String]}
}

// readFull models io.ReadFull(r, p) and binary.Read(r, order, []byte / *[]byte) (errOnly: only the error is returned).
func (x *Exec) readFull(st *State, r, p Val, inMem, errOnly bool) []callOut {
	e := x.e
	e.needBytes()
	st.groups["bytes"] = true
	errT := types.Universe.Lookup("error").Type()
	intT := types.Typ[types.Int]
	g := st.ghost("rem")
	ref := refOf(st, r)
	R := st.name("R", "Bytes", st.ghostRead(g, ref))
	ln := "(s_len " + p.T + ")"
	mk := func(s *State, n string, err Val) Val {
		if errOnly {
			return err
		}
		return Val{Tuple: []Val{{T: n, Ty: intT}, err}}
	}
	// failure
	s2 := st.clone()
	s2.note("read fails")
	k := s2.freshSort("k", "Int")
	s2.assume(and("(<= 0 "+k+")", "(< "+k+" "+ln+")", "(<= "+k+" (blen "+R+"))"))
	junk := s2.freshSort("junk", "Bytes")
	s2.assume("(= (blen " + junk + ") " + ln + ")")
	c2 := s2.freshSort("c", "Int")
	s2.assume(and("(<= "+k+" "+c2+")", "(<= "+c2+" (blen "+R+"))"))
	if inMem {
		s2.assumePC("(< (blen " + R + ") " + ln + ")")
		s2.assume(and("(= "+k+" (blen "+R+"))", "(= "+c2+" (blen "+R+"))", "(= (btake "+junk+" "+k+") "+R+")"))
	}
	s2.writeWindow(p.T, junk)
	s2.ghostWrite(g, ref, "(bdrop "+R+" "+c2+")")
	out2 := callOut{st: s2, val: mk(s2, k, x.eofError(s2, errT, inMem, "(= (blen "+R+") 0)"))}
	// success
	st.note("read succeeds")
	if inMem {
		st.assumePC("(>= (blen " + R + ") " + ln + ")")
	} else {
		st.assume("(>= (blen " + R + ") " + ln + ")")
	}
	st.writeWindow(p.T, "(btake "+R+" "+ln+")")
	R2 := st.name("R", "Bytes", "(bdrop "+R+" "+ln+")")
	st.assume("(= (blen " + R2 + ") (- (blen " + R + ") " + ln + "))") // implied (blen_drop)
	st.ghostWrite(g, ref, R2)
	return []callOut{{st: st, val: mk(st, ln, nilError(errT))}, out2}
}

// eofError: the error of a failed read. In-memory readers fail with io.EOF (nothing left) or io.ErrUnexpectedEOF.
func (x *Exec) eofError(st *State, t types.Type, inMem bool, nothingLeft string) Val {
	if !inMem {
		return anyError(st, t)
	}
	v := st.fresh("eoferr", t)
	eof := x.e.ioErrGlobal(st, "EOF")
	ueof := x.e.ioErrGlobal(st, "ErrUnexpectedEOF")
	st.assume(ite(nothingLeft, eq(v.T, eof), eq(v.T, ueof)))
	st.markIOFail()
	v.NonNil = true
	return v
}

// addDynAlloc: bytes allocated by allocations whose size depends on data (make with a non-constant size, string(b)).
func (st *State) addDynAlloc(n string) {
	c := st.heapTerm("gh:$dynalloc", "Int")
	st.setHeap("gh:$dynalloc", "Int", "(+ "+c+" "+n+")")
}

func (e *Engine) sizeofElem(t types.Type) int64 {
	return types.SizesFor("gc", "amd64").Sizeof(t)
}
