package main

type regFn func(name, doc string, f externFn, mods ...string)

func (e *Engine) registerIOExterns(reg regFn)   {}
func (e *Engine) registerSyncExterns(reg regFn) {}
