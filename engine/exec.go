package main

import (
	"fmt"
	"os"
	"go/constant"
	"go/token"
	"go/types"
	"math/big"
	"sort"
	"strings"

	"golang.org/x/tools/go/ssa"
)

type Obligation struct {
	MinTimeout int `json:"-"`
	Name   string
	Func   string
	Kind   string
	Props  []string
	Pos    string
	Cmds   []string
	Goal   string
	Groups map[string]bool
	Trace  []string
	Desc   string
	// results
	Status string // discharged, failed, unknown
	Solver string
	Time   float64
	Model  string
	Output string
	Structural bool
	File string
	seq int
}

type outcome struct {
	st  *State
	res []Val
}

// Exec verifies one function against its contract.
type Exec struct {
	e      *Engine
	root   *ssa.Function
	c      *Contract
	obls   []*Obligation
	siteN  map[string]int
	sitePos map[string]int
	paths  int
	maxPaths int
	errs   []string
	inlineDepth int
	trivial, covered, steps, maxSteps int
	stepLimitHit bool
	entryVars map[string]Val
	blocking map[string]*blockSite
	onAlloc func(st *State, fr *frame, in *ssa.MakeSlice, et types.Type, n string)
	stack []*ssa.Function
	recDepth int
	prune    bool
	logicals map[string]bool
	freeCells map[string]*Addr
	caseName string // foreach: the type bound to $K in this run
	feasCalls int
}

func (e *Engine) shortName(fn *ssa.Function) string {
	if fn.Pkg == nil {
		if fn.Parent() != nil {
			return e.shortName(fn.Parent()) + "$" + strings.TrimPrefix(fn.Name(), fn.Parent().Name()+"$")
		}
		// synthetic wrappers etc.
		return fn.String()
	}
	if !e.analysed(fn) {
		return fn.Pkg.Pkg.Path() + "." + fn.RelString(fn.Pkg.Pkg)
	}
	return fn.Pkg.Pkg.Name() + "." + fn.RelString(fn.Pkg.Pkg)
}

func (x *Exec) fail(st *State, kind, detail string) {
	// fail closed: an unsupported construct is an undischarged obligation
	x.oblige(st, nil, "unsupported/"+kind, detail, "false")
}

// siteName gives a stable per-function ordinal name to an obligation site.
func (x *Exec) siteName(fn *ssa.Function, kind string, pos token.Pos, detail string) string {
	key := x.e.shortName(fn) + "/" + kind
	if detail != "" {
		key += "@" + detail
	}
	return key
}

func (x *Exec) oblige(st *State, fn *ssa.Function, kind, detail, goal string) {
	if fn == nil {
		fn = x.root
	}
	name := x.siteName(fn, kind, 0, detail) + x.caseSuffix()
	if goal == "true" {
		// folded to true on this path (e.g. a type test on a pinned dynamic type): nothing to ask a solver, but the
		// obligation was generated - the vacuity guard (expected obligations) must see it
		x.trivial++
		x.e.trivMu.Lock()
		x.e.trivNames[name] = true
		x.e.trivMu.Unlock()
		return
	}
	o := &Obligation{Name: name, Func: x.e.shortName(x.root), Kind: kind, Goal: goal, Groups: map[string]bool{}}
	o.Cmds = append([]string(nil), st.cmds...)
	for g := range st.groups {
		o.Groups[g] = true
	}
	if x.c != nil {
		o.Props = x.c.Props
		o.MinTimeout = x.c.Timeout
		for _, g := range x.c.Groups {
			o.Groups[g] = true
		}
	}
	o.Trace = append([]string(nil), st.trace...)
	x.obls = append(x.obls, o)
}

func (fr *frame) clone() *frame {
	n := *fr
	n.regs = make(map[ssa.Value]Val, len(fr.regs))
	for k, v := range fr.regs {
		n.regs[k] = v
	}
	n.defers = append([]deferred(nil), fr.defers...)
	n.loops = make(map[*ssa.BasicBlock]bool, len(fr.loops))
	for k, v := range fr.loops {
		n.loops[k] = v
	}
	n.loopEntryCells = make(map[*ssa.BasicBlock]map[int]Val, len(fr.loopEntryCells))
	for k, v := range fr.loopEntryCells {
		n.loopEntryCells[k] = v
	}
	n.loopEntry = make(map[*ssa.BasicBlock]map[string]string, len(fr.loopEntry))
	for k, v := range fr.loopEntry {
		n.loopEntry[k] = v
	}
	n.idxNext = fr.idxNext
	n.unrolled = make(map[*ssa.BasicBlock]int, len(fr.unrolled))
	for k, v := range fr.unrolled {
		n.unrolled[k] = v
	}
	n.decs = make(map[*ssa.BasicBlock]string, len(fr.decs))
	for k, v := range fr.decs {
		n.decs[k] = v
	}
	return &n
}

// ---------------------------------------------------------------- values

func (x *Exec) constVal(st *State, c *ssa.Const) Val {
	e := x.e
	t := c.Type()
	if c.Value == nil {
		if tup, ok := t.(*types.Tuple); ok {
			var vs []Val
			for i := 0; i < tup.Len(); i++ {
				vs = append(vs, Val{T: e.zero(tup.At(i).Type()), Ty: tup.At(i).Type()})
			}
			return Val{Tuple: vs, Ty: t}
		}
		return Val{T: e.zero(t), Ty: t}
	}
	switch c.Value.Kind() {
	case constant.Bool:
		return Val{T: fmt.Sprint(constant.BoolVal(c.Value)), Ty: t}
	case constant.Int:
		b, _ := new(big.Int).SetString(c.Value.ExactString(), 10)
		return Val{T: bigTerm(b), Ty: t}
	case constant.String:
		return Val{T: e.strLit(constant.StringVal(c.Value)), Ty: t}
	case constant.Float:
		return Val{T: "0.0", Ty: t}
	}
	panic("const kind")
}

func (x *Exec) val(st *State, fr *frame, v ssa.Value) Val {
	switch v := v.(type) {
	case *ssa.Const:
		return x.constVal(st, v)
	case *ssa.Global:
		return Val{Ty: v.Type(), Addr: &Addr{Kind: AGlobal, Global: v, RootTy: v.Type().(*types.Pointer).Elem()}}
	case *ssa.Function:
		return Val{Ty: v.Type(), Clo: &Closure{Fn: v}}
	case *ssa.Builtin:
		return Val{Ty: v.Type()}
	}
	if r, ok := fr.regs[v]; ok {
		return r
	}
	panic(fmt.Sprintf("no value for %s (%T) in %s", v.Name(), v, fr.fn))
}

// addrOf turns a pointer value into an address, emitting the nil-dereference obligation.
func (x *Exec) addrOf(st *State, fr *frame, p Val, pos token.Pos, what string) *Addr {
	if p.Addr != nil {
		return p.Addr
	}
	pt, ok := p.Ty.Underlying().(*types.Pointer)
	if !ok {
		panic("addrOf non-pointer " + p.Ty.String())
	}
	if a := st.resolveEncoded(p.T); a != nil {
		return a
	}
	if x.e.eptrDone && x.c != nil && x.c.ElemPtrs {
		// a pointer that came out of memory: object or slice element? ask which is refutable on this path
		if isObj, isElem := x.refuteEither(st, "(iselem "+p.T+")"); isElem {
			st.assumePC("(iselem " + p.T + ")")
			// name the element: p = eptr(b, i) for fresh constants (they exist: every element pointer is an eptr term)
			if bi, ok := st.elemNames[p.T]; ok {
				return &Addr{Kind: AElem, Base: bi[0], Idx: bi[1], RootTy: pt.Elem()}
			}
			b, i := st.freshSort("eb", "Int"), st.freshSort("ei", "Int")
			st.assume("(= " + p.T + " (eptr " + b + " " + i + "))")
			st.assume("(and (= " + b + " (ebase " + p.T + ")) (= " + i + " (eidx " + p.T + ")))")
			n := make(map[string][2]string, len(st.elemNames)+1)
			for k, v := range st.elemNames {
				n[k] = v
			}
			n[p.T] = [2]string{b, i}
			st.elemNames = n
			return &Addr{Kind: AElem, Base: b, Idx: i, RootTy: pt.Elem()}
		} else {
			_ = isObj // undetermined: as everywhere else, a pointer of unknown provenance is taken to refer to an object
		}
	}
	x.obligeAt(st, fr, "nil-deref", pos, what, "(not (= "+p.T+" 0))")
	st.assume("(not (= " + p.T + " 0))")
	return &Addr{Kind: AObj, Loc: p.T, RootTy: pt.Elem()}
}

func (x *Exec) obligeAt(st *State, fr *frame, kind string, pos token.Pos, what, goal string) {
	if goal == "true" {
		x.trivial++
		return
	}
	detail := what
	fn := fr.fn
	name := x.siteName(fn, kind, pos, detail)
	// ordinal per (name): distinguishes several sites of one kind by first-seen source position
	pk := name + "|" + x.e.fset.Position(pos).String()
	if _, ok := x.sitePos[pk]; !ok {
		x.siteN[name]++
		x.sitePos[pk] = x.siteN[name]
	}
	n := x.sitePos[pk]
	o := &Obligation{Name: fmt.Sprintf("%s#%d%s", name, n, x.caseSuffix()), Func: x.e.shortName(x.root), Kind: kind, Goal: goal, Pos: shortPos(x.e.fset, pos), Groups: map[string]bool{}}
	o.Cmds = append([]string(nil), st.cmds...)
	for g := range st.groups {
		o.Groups[g] = true
	}
	if x.c != nil {
		o.Props = x.c.Props
		o.MinTimeout = x.c.Timeout
		for _, g := range x.c.Groups {
			o.Groups[g] = true
		}
	}
	o.Trace = append([]string(nil), st.trace...)
	x.obls = append(x.obls, o)
}

// ---------------------------------------------------------------- function entry

func resultNames(sig *types.Signature) []string {
	var ns []string
	r := sig.Results()
	for i := 0; i < r.Len(); i++ {
		n := r.At(i).Name()
		if n == "" || n == "_" {
			n = fmt.Sprintf("result%d", i)
		}
		ns = append(ns, n)
	}
	return ns
}

func isErrorType(t types.Type) bool {
	n, ok := t.(*types.Named)
	return ok && n.Obj().Pkg() == nil && n.Obj().Name() == "error"
}

// bindResults adds result names to a spec context.
func bindResults(ctx *SpecCtx, sig *types.Signature, res []Val) {
	names := resultNames(sig)
	for i, n := range names {
		if i < len(res) {
			ctx.vars[n] = res[i]
			ctx.vars[fmt.Sprintf("result%d", i)] = res[i]
		}
	}
	if len(res) == 1 {
		ctx.vars["result"] = res[0]
	}
	if n := len(res); n > 0 && isErrorType(sig.Results().At(n-1).Type()) {
		if _, ok := ctx.vars["err"]; !ok || names[n-1] == "err" {
			ctx.vars["err"] = res[n-1]
		}
	}
}

func (x *Exec) evalClause(st *State, ctx *SpecCtx, c Clause) (t string, err error) {
	defer func() {
		if r := recover(); r != nil {
			if se, ok := r.(specError); ok {
				err = fmt.Errorf("%s", se.msg)
				return
			}
			panic(r)
		}
	}()
	ctx.what = c.Src
	return ctx.evalBool(c.X), nil
}

func clauseName(kind string, i int, c Clause) string {
	if c.Label != "" {
		return kind + ":" + c.Label
	}
	return fmt.Sprintf("%s#%d", kind, i+1)
}

// verify runs the body of fn against contract c and collects obligations.
func (x *Exec) verify() {
	fn, c, e := x.root, x.c, x.e
	if fn.Blocks == nil {
		x.errs = append(x.errs, "function has no body: "+fn.String())
		return
	}
	st := e.newState()
	st.heap0 = map[string]string{}
	for _, g := range c.Groups {
		st.groups[g] = true
	}
	fr := x.newFrame(fn)
	ctx := &SpecCtx{s: st, vars: map[string]Val{}, pkg: fn.Pkg.Pkg}
	for _, p := range fn.Params {
		v := st.fresh("p_"+p.Name(), p.Type())
		st.assumeAllocated(p.Type(), v.T)
		fr.regs[p] = v
		fr.params = append(fr.params, v)
		ctx.vars[p.Name()] = v
	}
	for i, fv := range fn.FreeVars {
		// free variables of a closure verified on its own: fresh cells
		pt := fv.Type().(*types.Pointer).Elem()
		v := st.fresh("fv_"+fv.Name(), pt)
		st.assumeAllocated(pt, v.T)
		cell := st.newCell(pt, v)
		fr.regs[fv] = Val{Ty: fv.Type(), Addr: &Addr{Kind: ALocal, Cell: cell, RootTy: pt}}
		ctx.vars[fv.Name()] = v
		if x.freeCells == nil {
			x.freeCells = map[string]*Addr{}
		}
		x.freeCells[fv.Name()] = &Addr{Kind: ALocal, Cell: cell, RootTy: pt}
		_ = i
	}
	for _, lv := range c.Logical {
		t, err := e.resolveType(fn.Pkg.Pkg, lv[1])
		if err != nil {
			x.errs = append(x.errs, fmt.Sprintf("logical %s: %v", lv[0], err))
			return
		}
		v := st.fresh("lv_"+lv[0], t)
		st.assumeAllocated(t, v.T)
		ctx.vars[lv[0]] = v
		if x.logicals == nil {
			x.logicals = map[string]bool{}
		}
		x.logicals[lv[0]] = true
	}
	x.prune = c.Prune
	e.curElemPtrs = c.ElemPtrs
	e.curCase = x.caseName
	if c.ElemPtrs {
		e.needEptr()
	}
	for _, d := range c.Dyns {
		if err := x.bindDyn(st, fr, ctx, d[0], strings.ReplaceAll(d[1], "$K", x.caseName)); err != nil {
			x.errs = append(x.errs, "dyn "+d[0]+": "+err.Error())
			return
		}
	}
	// snapshot of initial heap for old(): shares lazily created entries
	for k, v := range st.heap {
		st.heap0[k] = v
	}
	for i, r := range c.Requires {
		t, err := x.evalClause(st, ctx, r)
		if err != nil {
			x.errs = append(x.errs, err.Error())
			x.oblige(st, fn, "contract-error", clauseName("requires", i, r), "false")
			return
		}
		st.assume(t)
	}
	// re-snapshot (requires may have touched new heaps; they are initial versions)
	for k, v := range st.heap {
		if _, ok := st.heap0[k]; !ok {
			st.heap0[k] = v
		}
	}
	x.entryVars = ctx.vars
	for k := range x.logicals {
		// dyn bindings may have refined the logical variable's value (pinned dynamic types)
		_ = k
	}
	outs := x.runBlock(st, fr, fn.Blocks[0], 0)
	for _, o := range outs {
		x.checkPost(o.st, fn, c, ctx.vars, o.res)
	}
}

func (x *Exec) checkPost(st *State, fn *ssa.Function, c *Contract, entry map[string]Val, res []Val) {
	ctx := &SpecCtx{s: st, vars: map[string]Val{}, pkg: fn.Pkg.Pkg, old: st.heap0}
	for k, v := range entry {
		ctx.vars[k] = v
	}
	for k, a := range x.freeCells {
		// captured variables of a closure verified on its own: final_<name> is the value at return
		_ = entry[k] // the plain name stays the value at entry (as for parameters)
		ctx.vars["final_"+k] = st.load(a)
	}
	bindResults(ctx, fn.Signature, res)
	if x.prune && c.PruneReturns && len(res) > 0 && isErrorType(res[len(res)-1].Ty) && res[len(res)-1].T != "(mk_iface 0 0)" && !x.feasibleWithin(st, 15) {
		// a return path that the branch-time pruning (1-2 s) could not refute but a longer attempt can: it is infeasible,
		// so its postconditions hold vacuously - one query instead of one per clause
		return
	}
	for i, en := range c.Ensures {
		t, err := x.evalClause(st, ctx, en)
		if err != nil {
			x.errs = append(x.errs, err.Error())
			x.oblige(st, fn, "contract-error", clauseName("ensures", i, en), "false")
			continue
		}
		x.oblige(st, fn, "post", clauseName("ensures", i, en), t)
	}
	x.covered++
}

func (x *Exec) newFrame(fn *ssa.Function) *frame {
	return &frame{fn: fn, regs: map[ssa.Value]Val{}, loops: map[*ssa.BasicBlock]bool{}, decs: map[*ssa.BasicBlock]string{}, unrolled: map[*ssa.BasicBlock]int{}, loopEntry: map[*ssa.BasicBlock]map[string]string{}, loopEntryCells: map[*ssa.BasicBlock]map[int]Val{}}
}

// ---------------------------------------------------------------- loops

type loopInfo struct {
	header  *ssa.BasicBlock
	blocks  map[*ssa.BasicBlock]bool
	ordinal int
}

func (e *Engine) loopsOf(fn *ssa.Function) map[*ssa.BasicBlock]*loopInfo {
	if li, ok := e.loopCache[fn]; ok {
		return li
	}
	res := map[*ssa.BasicBlock]*loopInfo{}
	for _, b := range fn.Blocks {
		for _, s := range b.Succs {
			if s.Dominates(b) { // back edge b -> s
				li := res[s]
				if li == nil {
					li = &loopInfo{header: s, blocks: map[*ssa.BasicBlock]bool{s: true}}
					res[s] = li
				}
				// natural loop: nodes reaching b without passing through s
				var stack []*ssa.BasicBlock
				if !li.blocks[b] {
					li.blocks[b] = true
					stack = append(stack, b)
				}
				for len(stack) > 0 {
					n := stack[len(stack)-1]
					stack = stack[:len(stack)-1]
					for _, p := range n.Preds {
						if !li.blocks[p] {
							li.blocks[p] = true
							stack = append(stack, p)
						}
					}
				}
			}
		}
	}
	// ordinals in source order of header position (fallback block index)
	var hs []*ssa.BasicBlock
	for h := range res {
		hs = append(hs, h)
	}
	sort.Slice(hs, func(i, j int) bool {
		pi, pj := blockPos(hs[i]), blockPos(hs[j])
		if pi != pj {
			return pi < pj
		}
		return hs[i].Index < hs[j].Index
	})
	for i, h := range hs {
		res[h].ordinal = i + 1
	}
	e.loopCache[fn] = res
	return res
}

func blockPos(b *ssa.BasicBlock) token.Pos {
	best := token.Pos(0)
	for _, in := range b.Instrs {
		if p := in.Pos(); p.IsValid() && (best == 0 || p < best) {
			best = p
		}
	}
	if best == 0 {
		// header blocks of range loops often carry no position; use successors
		for _, s := range b.Succs {
			for _, in := range s.Instrs {
				if p := in.Pos(); p.IsValid() && (best == 0 || p < best) {
					best = p
				}
			}
		}
	}
	return best
}

// localCtx builds a spec context in which source-level locals of fr are visible.
func (x *Exec) localCtx(st *State, fr *frame, li *loopInfo) *SpecCtx {
	ctx := &SpecCtx{s: st, vars: map[string]Val{}, pkg: fr.fn.Pkg.Pkg, old: st.heap0}
	for k := range x.logicals {
		// logical variables of the root contract are visible in every frame (invariants of inlined functions)
		ctx.vars[k] = x.entryVars[k]
	}
	if fr.fn == x.root {
		for k, v := range x.entryVars {
			ctx.vars["old_"+k] = v
		}
	}
	ctx.lookup = func(name string) (Val, bool) {
		want := name
		ord := 1
		wantTy := ""
		if i := strings.Index(name, "#"); i > 0 {
			want = name[:i]
			if _, err := fmt.Sscanf(name[i+1:], "%d", &ord); err != nil {
				// name#LJstring: the local of that name whose type is []string (type spelled as sanitize(typeKey) does);
				// robust against added or reordered declarations of the same name
				ord, wantTy = 1, name[i+1:]
			}
		}
		if want == "$i" || want == "$done" {
			// range index cell of this loop
			if li != nil {
				for _, al := range fr.allocs {
					if al.Comment == "rangeindex" && li.blocks[x.storeBlockOf(al, li)] {
						v := st.load(fr.regs[al].Addr)
						if want == "$done" {
							return ival(fr.nextIndex(st, v.T)), true
						}
						return v, true
					}
				}
			}
			return Val{}, false
		}
		n := 0
		for _, al := range fr.allocs {
			if al.Comment == want {
				if wantTy != "" && sanitize(typeKey(al.Type().(*types.Pointer).Elem())) != wantTy {
					continue
				}
				n++
				if n == ord {
					if r, ok := fr.regs[al]; ok && r.Addr != nil {
						return st.load(r.Addr), true
					}
				}
			}
		}
		// parameters that are not yet spilled / free variables
		for _, p := range fr.fn.Params {
			if p.Name() == want {
				return fr.regs[p], true
			}
		}
		for _, fv := range fr.fn.FreeVars {
			if fv.Name() == want {
				return st.load(fr.regs[fv].Addr), true
			}
		}
		return Val{}, false
	}
	return ctx
}

// storeBlockOf finds a block inside the loop that stores to alloc al (used to tie a rangeindex cell to its loop).
func (x *Exec) storeBlockOf(al *ssa.Alloc, li *loopInfo) *ssa.BasicBlock {
	for _, r := range *al.Referrers() {
		if s, ok := r.(*ssa.Store); ok && s.Addr == al && li.blocks[s.Block()] && s.Block() == li.header {
			return s.Block()
		}
	}
	return nil
}

func (x *Exec) loopSpec(fn *ssa.Function, ord int) *LoopSpec {
	c := x.e.contracts[x.e.shortName(fn)]
	if x.c != nil && funcOf(x.c.Name) == x.e.shortName(fn) && len(x.c.Loops) > 0 {
		c = x.c // a variant contract (f#v) of the function under verification brings its own loop specifications
	}
	if c == nil {
		return nil
	}
	return c.Loops[ord]
}

// enterLoop handles arrival at a loop header. Returns false if the path ends here (back edge).
func (x *Exec) enterLoop(st *State, fr *frame, li *loopInfo) bool {
	// a range loop over a slice whose length is a literal on this path is executed iteration by iteration
	if x.concreteRange(st, fr, li) {
		fr.unrolled[li.header]++
		if fr.unrolled[li.header] > 80 {
			x.fail(st, "unroll-limit", "")
			return false
		}
		return true
	}
	if os.Getenv("P9VC_TRACE") != "" {
		fmt.Fprintf(os.Stderr, "loop cut in %s ordinal %d\n", fr.fn.Name(), li.ordinal)
		cnt := map[string]int{}
		for _, al := range fr.allocs {
			cnt[al.Comment]++
			fmt.Fprintf(os.Stderr, "   local %s#%d : %v\n", al.Comment, cnt[al.Comment], al.Type())
		}
	}
	spec := x.loopSpec(fr.fn, li.ordinal)
	lname := fmt.Sprintf("loop%d", li.ordinal)
	if !fr.loops[li.header] {
		fr.loopEntry[li.header] = st.snapshot()
		cs := make(map[int]Val, len(st.cells))
		for k, v := range st.cells {
			cs[k] = v
		}
		fr.loopEntryCells[li.header] = cs
	}
	inv := func(phase string) {
		ctx := x.localCtx(st, fr, li)
		ctx.entry, ctx.entryCells = fr.loopEntry[li.header], fr.loopEntryCells[li.header]
		// automatic invariant of range loops: -1 <= index and index+1 <= length of the ranged value
		if v, ok := ctx.lookup("$i"); ok {
			x.oblige(st, fr.fn, "inv-"+phase, lname+"/auto-rangeindex", and("(>= "+v.T+" (- 1))", x.rangeBound(st, fr, li, v.T)))
		}
		if spec == nil {
			return
		}
		for i, c := range spec.Inv {
			t, err := x.evalClause(st, ctx, c)
			if err != nil && strings.HasPrefix(c.Label, "rt_") && strings.Contains(err.Error(), "unknown identifier") {
				// an invariant about a logical variable that this root contract does not declare does not apply to it
				continue
			}
			if err != nil {
				x.errs = append(x.errs, err.Error())
				x.oblige(st, fr.fn, "contract-error", lname+"/"+clauseName("invariant", i, c), "false")
				continue
			}
			x.oblige(st, fr.fn, "inv-"+phase, lname+"/"+clauseName("invariant", i, c), t)
			// clauses are established in order: later ones may use earlier ones (assert; assume; assert ...)
			st.assume(t)
		}
	}
	if fr.loops[li.header] {
		inv("preserve")
		if spec != nil && spec.Dec != nil {
			ctx := x.localCtx(st, fr, li)
			ctx.what = spec.Dec.Src
			d := x.safeEvalInt(ctx, spec.Dec.X)
			d0 := fr.decs[li.header]
			x.oblige(st, fr.fn, "decreases", lname, and("(>= "+d0+" 0)", "(< "+d+" "+d0+")"))
		}
		return false
	}
	inv("entry")
	// havoc everything the loop may modify
	ms := x.e.loopModSet(fr.fn, li)
	for _, al := range fr.allocs {
		if ms.allocs[al] {
			if r, ok := fr.regs[al]; ok && r.Addr != nil && r.Addr.Kind == ALocal {
				ty := st.cellTy[r.Addr.Cell]
				if st.promoted[r.Addr.Cell] != "" {
					continue // lives in the heap now; covered by heap havoc
				}
				nv := st.fresh("l_"+al.Comment, ty)
				st.assumeAllocated(ty, nv.T)
				st.cells[r.Addr.Cell] = nv
			}
		}
	}
	st.havocSet(ms)
	// assume invariant
	ctx := x.localCtx(st, fr, li)
	ctx.entry, ctx.entryCells = fr.loopEntry[li.header], fr.loopEntryCells[li.header]
	if v, ok := ctx.lookup("$i"); ok {
		st.assume("(>= " + v.T + " (- 1))")
		st.assume(x.rangeBound(st, fr, li, v.T))
	}
	if spec != nil {
		for _, c := range spec.Inv {
			t, err := x.evalClause(st, ctx, c)
			if err == nil {
				st.assume(t)
			}
		}
		if spec.Dec != nil {
			ctx.what = spec.Dec.Src
			d := x.safeEvalInt(ctx, spec.Dec.X)
			fr.decs[li.header] = st.name("dec0", "Int", d)
			if len(d) < 60 {
				n := st.freshSort("dec0", "Int")
				st.assume(eq(n, d))
				fr.decs[li.header] = n
			}
		}
	}
	fr.loops[li.header] = true
	return true
}

func (x *Exec) safeEvalInt(ctx *SpecCtx, e SExpr) (t string) {
	defer func() {
		if r := recover(); r != nil {
			if se, ok := r.(specError); ok {
				x.errs = append(x.errs, se.msg)
				t = "0"
				return
			}
			panic(r)
		}
	}()
	return ctx.evalInt(e)
}

// ---------------------------------------------------------------- block execution

func (x *Exec) runBlock(st *State, fr *frame, b *ssa.BasicBlock, from int) []outcome {
	if from == 0 {
		if li := x.e.loopsOf(fr.fn)[b]; li != nil {
			if !x.enterLoop(st, fr, li) {
				return nil
			}
		}
	}
	x.steps++
	if x.steps > x.maxSteps {
		if !x.stepLimitHit {
			x.stepLimitHit = true
			x.fail(st, "path-limit", "")
		}
		return nil
	}
	for i := from; i < len(b.Instrs); i++ {
		in := b.Instrs[i]
		if _, isDbg := in.(*ssa.DebugRef); !isDbg {
			x.lineHooks(st, fr, in)
			if st.dead {
				return nil
			}
		}
		switch in := in.(type) {
		case *ssa.DebugRef:
			continue
		case *ssa.If:
			c := x.val(st, fr, in.Cond)
			if (x.prune || (x.c != nil && x.c.ElemPtrs && strings.Contains(c.T, "(i_tag "))) && c.T != "true" && c.T != "false" {
				// statically bounded recursion over symbolic data (the codec): follow feasible branches only
				// refutations are quick, satisfiability with quantified axioms is not: ask which side is impossible
				if ci, ni := x.refuteEither(st, c.T); ci {
					st.assumePC(not(c.T))
					c.T = "false"
				} else if ni {
					st.assumePC(c.T)
					c.T = "true"
				}
			}
			var outs []outcome
			if c.T != "false" {
				s1, f1 := st, fr
				if c.T != "true" {
					s1, f1 = st.clone(), fr.clone()
					s1.assumePC(c.T)
				}
				f1.prev = b
				outs = append(outs, x.runBlock(s1, f1, b.Succs[0], 0)...)
			}
			if c.T != "true" {
				s2, f2 := st, fr
				s2.assumePC(not(c.T))
				f2.prev = b
				outs = append(outs, x.runBlock(s2, f2, b.Succs[1], 0)...)
			}
			return outs
		case *ssa.Jump:
			fr.prev = b
			return x.runBlock(st, fr, b.Succs[0], 0)
		case *ssa.Return:
			var res []Val
			for _, r := range in.Results {
				res = append(res, x.val(st, fr, r))
			}
			return []outcome{{st, res}}
		case *ssa.Panic:
			x.obligeAt(st, fr, "panic", in.Pos(), "explicit", "false")
			return nil
		case *ssa.RunDefers:
			outs := x.runDefers(st, fr)
			if len(outs) == 1 && outs[0].st == st {
				continue
			}
			var all []outcome
			for _, o := range outs {
				all = append(all, x.runBlock(o.st, o.fr, b, i+1)...)
			}
			return all
		case *ssa.Call:
			outs := x.doCall(st, fr, in, &in.Call, in.Pos())
			if len(outs) == 1 && outs[0].st == st {
				fr.regs[in] = outs[0].val
				continue
			}
			if os.Getenv("P9VC_TRACE") != "" {
				fmt.Fprintf(os.Stderr, "split %d at %s: %s\n", len(outs), shortPos(x.e.fset, in.Pos()), in.String())
			}
			if x.prune {
				// later alternatives are the failure cases: refute them first; the last survivor is kept unchecked
				var keep []callOut
				for k := len(outs) - 1; k >= 0; k-- {
					if (k == 0 && len(keep) == 0) || x.feasibleCond(outs[k].st, "true") {
						keep = append([]callOut{outs[k]}, keep...)
					}
				}
				outs = keep
			}
			var all []outcome
			for k, o := range outs {
				f2 := fr
				if k < len(outs)-1 {
					f2 = fr.clone()
				}
				f2.regs[in] = o.val
				all = append(all, x.runBlock(o.st, f2, b, i+1)...)
			}
			return all
		case *ssa.Select:
			outs := x.doSelect(st, fr, in)
			var all []outcome
			for k, o := range outs {
				f2 := fr
				if k < len(outs)-1 {
					f2 = fr.clone()
				}
				f2.regs[in] = o.val
				all = append(all, x.runBlock(o.st, f2, b, i+1)...)
			}
			return all
		case *ssa.Next:
			outs := x.doNext(st, fr, in)
			var all []outcome
			for k, o := range outs {
				f2 := fr
				if k < len(outs)-1 {
					f2 = fr.clone()
				}
				f2.regs[in] = o.val
				all = append(all, x.runBlock(o.st, f2, b, i+1)...)
			}
			return all
		default:
			if !x.step(st, fr, in) {
				return nil
			}
		}
	}
	return nil
}

type callOut struct {
	st  *State
	val Val
	fr  *frame
}

// step executes a non-branching instruction; returns false if the path ends.
func (x *Exec) step(st *State, fr *frame, in ssa.Instruction) bool {
	e := x.e
	switch in := in.(type) {
	case *ssa.Alloc:
		et := in.Type().(*types.Pointer).Elem()
		fr.allocs = appendAlloc(fr.allocs, in)
		if at, ok := et.Underlying().(*types.Array); ok {
			loc := st.newLoc("arr")
			id, sort, h := st.elemHeap(at.Elem())
			_ = id
			_ = sort
			st.assumeZeroArray("(select "+h+" "+loc+")", at.Elem())
			fr.regs[in] = Val{T: loc, Ty: in.Type()}
			return true
		}
		cell := st.newCell(et, Val{T: e.zero(et), Ty: et})
		a := &Addr{Kind: ALocal, Cell: cell, RootTy: et}
		fr.regs[in] = Val{Ty: in.Type(), Addr: a}
		if in.Heap && isStruct(et) && len(e.zeroGhosts()) > 0 {
			// objects that escape are created in the heap right away, so that "new object" facts (zero-initialised
			// ghost ledgers) are stated at the allocation and not where the address first escapes
			e.encodeAddr(st, a)
		}
	case *ssa.Store:
		a := x.addrOf(st, fr, x.val(st, fr, in.Addr), in.Pos(), "store")
		st.store(a, x.val(st, fr, in.Val))
	case *ssa.UnOp:
		fr.regs[in] = x.unop(st, fr, in)
	case *ssa.BinOp:
		fr.regs[in] = x.binop(st, fr, in)
	case *ssa.FieldAddr:
		p := x.val(st, fr, in.X)
		a := x.addrOf(st, fr, p, in.Pos(), "field")
		fr.regs[in] = Val{Ty: in.Type(), Addr: a.withField(in.Field)}
	case *ssa.Field:
		v := x.val(st, fr, in.X)
		if sv, ok := v.Sub[in.Field]; ok {
			fr.regs[in] = sv
			return true
		}
		t, ty := st.project(v.T, v.Ty, []int{in.Field})
		fr.regs[in] = Val{T: t, Ty: ty}
	case *ssa.IndexAddr:
		xv := x.val(st, fr, in.X)
		iv := x.val(st, fr, in.Index)
		switch u := xv.Ty.Underlying().(type) {
		case *types.Slice:
			if ci, ok := constOf(iv.T); ok && xv.HasArr && ci.IsInt64() {
				i := int(ci.Int64())
				x.obligeAt(st, fr, "index-bounds", in.Pos(), "", fmt.Sprint(i >= 0 && i < xv.ArrLen))
				if i < 0 || i >= xv.ArrLen {
					return false
				}
				fr.regs[in] = Val{Ty: in.Type(), Addr: &Addr{Kind: AElem, Base: xv.ArrBase, Idx: fmt.Sprint(xv.ArrOff + i), RootTy: u.Elem()}}
				return true
			}
			x.obligeAt(st, fr, "index-bounds", in.Pos(), "", and("(<= 0 "+iv.T+")", "(< "+iv.T+" (s_len "+xv.T+"))"))
			st.assume(and("(<= 0 "+iv.T+")", "(< "+iv.T+" (s_len "+xv.T+"))"))
			fr.regs[in] = Val{Ty: in.Type(), Addr: &Addr{Kind: AElem, Base: "(s_base " + xv.T + ")", Idx: st.name("ix", "Int", "(+ (s_off "+xv.T+") "+iv.T+")"), RootTy: u.Elem()}}
		case *types.Pointer:
			at := u.Elem().Underlying().(*types.Array)
			x.obligeAt(st, fr, "index-bounds", in.Pos(), "", and("(<= 0 "+iv.T+")", fmt.Sprintf("(< %s %d)", iv.T, at.Len())))
			fr.regs[in] = Val{Ty: in.Type(), Addr: &Addr{Kind: AElem, Base: st.term(xv), Idx: iv.T, RootTy: at.Elem()}}
			_ = at
		default:
			x.fail(st, "indexaddr", xv.Ty.String())
			return false
		}
	case *ssa.Index:
		xv := x.val(st, fr, in.X)
		iv := x.val(st, fr, in.Index)
		switch u := xv.Ty.Underlying().(type) {
		case *types.Array:
			x.obligeAt(st, fr, "index-bounds", in.Pos(), "", and("(<= 0 "+iv.T+")", fmt.Sprintf("(< %s %d)", iv.T, u.Len())))
			fr.regs[in] = Val{T: "(select " + xv.T + " " + iv.T + ")", Ty: u.Elem()}
		default:
			x.fail(st, "index", xv.Ty.String())
			return false
		}
	case *ssa.Lookup:
		fr.regs[in] = x.lookup(st, fr, in)
	case *ssa.Slice:
		v, ok := x.slice(st, fr, in)
		if !ok {
			return false
		}
		fr.regs[in] = v
	case *ssa.MakeSlice:
		ln, cp := x.val(st, fr, in.Len), x.val(st, fr, in.Cap)
		x.obligeAt(st, fr, "make-bounds", in.Pos(), "", and("(<= 0 "+ln.T+")", "(<= "+ln.T+" "+cp.T+")"))
		st.assume(and("(<= 0 "+ln.T+")", "(<= "+ln.T+" "+cp.T+")"))
		et := in.Type().Underlying().(*types.Slice).Elem()
		x.allocHook(st, fr, in, et, cp.T)
		if _, lit := constOf(cp.T); !lit {
			st.addDynAlloc(fmt.Sprintf("(* %s %d)", cp.T, e.sizeofElem(et)))
		}
		loc := st.newLoc("mk")
		_, _, h := st.elemHeap(et)
		st.assumeZeroArray("(select "+h+" "+loc+")", et)
		mv := Val{T: st.name("sl", "Slice", "(mk_slice "+loc+" 0 "+ln.T+" "+cp.T+")"), Ty: in.Type()}
		if cl, ok := constOf(ln.T); ok && ln.T != "" && cl.IsInt64() && cl.Int64() <= 64 {
			mv.HasArr, mv.ArrBase, mv.ArrLen = true, loc, int(cl.Int64())
		}
		fr.regs[in] = mv
	case *ssa.MakeMap:
		loc := st.newLoc("map")
		hid, _, lid := mapIDs(in.Type())
		ks, _ := st.mapSorts(in.Type())
		hs := "(Array Int (Array " + ks + " Bool))"
		h := st.heapTerm(hid, hs)
		st.setHeap(hid, hs, "(store "+h+" "+loc+" ((as const (Array "+ks+" Bool)) false))")
		l := st.heapTerm(lid, "(Array Int Int)")
		st.setHeap(lid, "(Array Int Int)", "(store "+l+" "+loc+" 0)")
		fr.regs[in] = Val{T: loc, Ty: in.Type()}
	case *ssa.MakeChan:
		loc := st.newLoc("chan")
		fr.regs[in] = Val{T: loc, Ty: in.Type()}
		x.chanMade(st, fr, in, loc)
	case *ssa.MakeInterface:
		v := x.val(st, fr, in.X)
		t := in.X.Type()
		fr.regs[in] = Val{T: st.name("ifc", "Iface", e.mkIface(t, st.term(v))), Ty: in.Type(), Dyn: t, Payload: &v}
	case *ssa.ChangeInterface:
		v := x.val(st, fr, in.X)
		v.Ty = in.Type()
		fr.regs[in] = v
	case *ssa.ChangeType:
		v := x.val(st, fr, in.X)
		v.Ty = in.Type()
		fr.regs[in] = v
	case *ssa.Convert:
		v, ok := x.convert(st, fr, in)
		if !ok {
			return false
		}
		fr.regs[in] = v
	case *ssa.TypeAssert:
		v, ok := x.typeAssert(st, fr, in)
		if !ok {
			return false
		}
		fr.regs[in] = v
	case *ssa.Extract:
		t := x.val(st, fr, in.Tuple)
		if in.Index >= len(t.Tuple) {
			x.fail(st, "extract", in.String())
			return false
		}
		fr.regs[in] = t.Tuple[in.Index]
	case *ssa.Phi:
		for i, p := range in.Block().Preds {
			if p == fr.prev {
				fr.regs[in] = x.val(st, fr, in.Edges[i])
				return true
			}
		}
		x.fail(st, "phi", in.String())
		return false
	case *ssa.MakeClosure:
		cl := &Closure{Fn: in.Fn.(*ssa.Function)}
		for _, b := range in.Bindings {
			cl.Bindings = append(cl.Bindings, x.val(st, fr, b))
		}
		fr.regs[in] = Val{Ty: in.Type(), Clo: cl}
	case *ssa.MapUpdate:
		m := x.val(st, fr, in.Map)
		k := x.val(st, fr, in.Key)
		v := x.val(st, fr, in.Value)
		x.obligeAt(st, fr, "nil-map", in.Pos(), "", "(not (= "+m.T+" 0))")
		st.mapStore(m.Ty, m.T, st.term(k), st.term(v))
	case *ssa.Defer:
		d := deferred{call: &in.Call, pos: in.Pos()}
		if !in.Call.IsInvoke() {
			d.fn = x.val(st, fr, in.Call.Value)
		} else {
			d.fn = x.val(st, fr, in.Call.Value)
		}
		for _, a := range in.Call.Args {
			d.args = append(d.args, x.val(st, fr, a))
		}
		fr.defers = append(fr.defers, d)
	case *ssa.Go:
		x.doGo(st, fr, in)
	case *ssa.Send:
		x.doSend(st, fr, in.Chan, in.X, in.Pos(), true)
	case *ssa.Range:
		v := x.val(st, fr, in.X)
		fr.regs[in] = x.startRange(st, fr, in, v)
	default:
		x.fail(st, "instr", fmt.Sprintf("%T", in))
		return false
	}
	return true
}

func appendAlloc(as []*ssa.Alloc, a *ssa.Alloc) []*ssa.Alloc {
	for _, b := range as {
		if b == a {
			return as
		}
	}
	return append(as, a)
}

func (x *Exec) unop(st *State, fr *frame, in *ssa.UnOp) Val {
	e := x.e
	v := x.val(st, fr, in.X)
	switch in.Op {
	case token.MUL:
		a := x.addrOf(st, fr, v, in.Pos(), "load")
		r := st.load(a)
		if r.Ty == nil {
			r.Ty = in.Type()
		}
		return r
	case token.NOT:
		return Val{T: not(v.T), Ty: in.Type()}
	case token.SUB:
		return Val{T: e.wrap(in.Type(), "(- "+v.T+")"), Ty: in.Type()}
	case token.XOR:
		_, hi, _, signed := intRange(in.Type())
		if signed {
			return Val{T: "(- (- " + v.T + ") 1)", Ty: in.Type()}
		}
		return Val{T: "(- " + hi.String() + " " + v.T + ")", Ty: in.Type()}
	case token.ARROW:
		return x.doRecv(st, fr, in, v)
	}
	panic("unop " + in.Op.String())
}

func (x *Exec) cmpEq(st *State, a, b Val) string {
	if a.T != "" && a.T == b.T {
		return "true" // syntactically identical terms (no floating point in the analysed code)
	}
	// interface vs nil, slices vs nil, general equality
	if _, ok := a.Ty.Underlying().(*types.Slice); ok {
		if b.T == "(mk_slice 0 0 0 0)" {
			return "(= (s_base " + a.T + ") 0)"
		}
		if a.T == "(mk_slice 0 0 0 0)" {
			return "(= (s_base " + b.T + ") 0)"
		}
	}
	if _, ok := a.Ty.Underlying().(*types.Interface); ok {
		if b.T == "(mk_iface 0 0)" {
			if a.Dyn != nil || a.NonNil {
				return "false"
			}
			return "(= (i_tag " + a.T + ") 0)"
		}
		if a.T == "(mk_iface 0 0)" {
			if b.Dyn != nil || b.NonNil {
				return "false"
			}
			return "(= (i_tag " + b.T + ") 0)"
		}
	}
	if _, ok := a.Ty.Underlying().(*types.Signature); ok {
		// func values compare only against nil
		if a.Clo != nil || b.Clo != nil {
			return "false"
		}
	}
	return eq(st.term(a), st.term(b))
}

func (x *Exec) binop(st *State, fr *frame, in *ssa.BinOp) Val {
	e := x.e
	a, b := x.val(st, fr, in.X), x.val(st, fr, in.Y)
	rt := in.Type()
	switch in.Op {
	case token.EQL, token.NEQ:
		if ca, ok1 := constOf(a.T); ok1 && a.T != "" {
			if cb, ok2 := constOf(b.T); ok2 {
				eqv := ca.Cmp(cb) == 0
				if in.Op == token.NEQ {
					eqv = !eqv
				}
				return Val{T: fmt.Sprint(eqv), Ty: rt}
			}
		}
		if in.Op == token.EQL {
			return Val{T: x.cmpEq(st, a, b), Ty: rt}
		}
		return Val{T: not(x.cmpEq(st, a, b)), Ty: rt}
	}
	if isStringTy(a.Ty) {
		switch in.Op {
		case token.ADD:
			return Val{T: "(str_cat " + a.T + " " + b.T + ")", Ty: rt}
		case token.LSS, token.LEQ, token.GTR, token.GEQ:
			r := st.fresh("strcmp", rt)
			return r
		}
	}
	if ca, ok1 := constOf(a.T); ok1 {
		if cb, ok2 := constOf(b.T); ok2 {
			// constant folding keeps statically known loops and branches concrete
			c := ca.Cmp(cb)
			switch in.Op {
			case token.LSS:
				return Val{T: fmt.Sprint(c < 0), Ty: rt}
			case token.LEQ:
				return Val{T: fmt.Sprint(c <= 0), Ty: rt}
			case token.GTR:
				return Val{T: fmt.Sprint(c > 0), Ty: rt}
			case token.GEQ:
				return Val{T: fmt.Sprint(c >= 0), Ty: rt}
			case token.MUL:
				r := new(big.Int).Mul(ca, cb)
				lo, hi, _, _ := intRange(rt)
				if lo != nil && r.Cmp(lo) >= 0 && r.Cmp(hi) <= 0 {
					return Val{T: bigTerm(r), Ty: rt}
				}
			case token.ADD, token.SUB:
				r := new(big.Int).Add(ca, cb)
				if in.Op == token.SUB {
					r = new(big.Int).Sub(ca, cb)
				}
				lo, hi, _, _ := intRange(rt)
				if lo != nil && r.Cmp(lo) >= 0 && r.Cmp(hi) <= 0 {
					return Val{T: bigTerm(r), Ty: rt}
				}
			}
		}
	}
	switch in.Op {
	case token.LSS:
		return Val{T: "(< " + a.T + " " + b.T + ")", Ty: rt}
	case token.LEQ:
		return Val{T: "(<= " + a.T + " " + b.T + ")", Ty: rt}
	case token.GTR:
		return Val{T: "(> " + a.T + " " + b.T + ")", Ty: rt}
	case token.GEQ:
		return Val{T: "(>= " + a.T + " " + b.T + ")", Ty: rt}
	case token.ADD:
		if isRangeIndexLoad(in.X) && b.T == "1" {
			// the increment of a range loop's hidden index cannot overflow (index < length <= maxint): no wrap term, and
			// the successor of an index value has one name per path, shared with $done in the loop's invariants
			return Val{T: fr.nextIndex(st, a.T), Ty: rt}
		}
		sum := st.name("sum", "Int", "(+ "+a.T+" "+b.T+")")
		return Val{T: st.name("add", "Int", e.wrapAddSub(rt, sum)), Ty: rt}
	case token.SUB:
		dif := st.name("dif", "Int", "(- "+a.T+" "+b.T+")")
		return Val{T: st.name("sub", "Int", e.wrapAddSub(rt, dif)), Ty: rt}
	case token.MUL:
		return Val{T: st.name("mul", "Int", e.wrap(rt, "(* "+a.T+" "+b.T+")")), Ty: rt}
	case token.QUO:
		x.obligeAt(st, fr, "div-zero", in.Pos(), "", "(not (= "+b.T+" 0))")
		return Val{T: st.name("quo", "Int", e.wrap(rt, goDiv(a.T, b.T))), Ty: rt}
	case token.REM:
		x.obligeAt(st, fr, "div-zero", in.Pos(), "", "(not (= "+b.T+" 0))")
		return Val{T: st.name("rem", "Int", goRem(a.T, b.T)), Ty: rt}
	case token.AND, token.OR, token.XOR, token.AND_NOT, token.SHL, token.SHR:
		return x.bitop(st, in.Op, a, b, rt)
	}
	panic("binop " + in.Op.String())
}

func goDiv(a, b string) string {
	// truncated division
	return "(ite (>= " + a + " 0) (ite (> " + b + " 0) (div " + a + " " + b + ") (- (div " + a + " (- " + b + ")))) (ite (> " + b + " 0) (- (div (- " + a + ") " + b + ")) (div (- " + a + ") (- " + b + "))))"
}
func goRem(a, b string) string {
	return "(- " + a + " (* " + b + " " + goDiv(a, b) + "))"
}

func constOf(t string) (*big.Int, bool) {
	if strings.HasPrefix(t, "(- ") && strings.HasSuffix(t, ")") {
		if n, ok := new(big.Int).SetString(t[3:len(t)-1], 10); ok {
			return n.Neg(n), true
		}
		return nil, false
	}
	n, ok := new(big.Int).SetString(t, 10)
	return n, ok
}

// bitop handles bit operations in the integer encoding. Patterns with a constant
// operand are exact; anything else is over-approximated by an unconstrained value of the type.
func (x *Exec) bitop(st *State, op token.Token, a, b Val, rt types.Type) Val {
	e := x.e
	lo, _, bits, signed := intRange(rt)
	_ = lo
	ca, aok := constOf(a.T)
	cb, bok := constOf(b.T)
	if aok && bok {
		var r *big.Int
		switch op {
		case token.AND:
			r = new(big.Int).And(ca, cb)
		case token.OR:
			r = new(big.Int).Or(ca, cb)
		case token.XOR:
			r = new(big.Int).Xor(ca, cb)
		case token.AND_NOT:
			r = new(big.Int).AndNot(ca, cb)
		case token.SHL:
			r = new(big.Int).Lsh(ca, uint(cb.Uint64()))
		case token.SHR:
			r = new(big.Int).Rsh(ca, uint(cb.Uint64()))
		}
		return Val{T: e.wrap(rt, bigTerm(r)), Ty: rt}
	}
	nonneg := func(v Val) bool {
		_, _, _, s := intRange(v.Ty)
		return !s
	}
	switch op {
	case token.SHL:
		if bok && cb.IsUint64() && cb.Uint64() < uint64(bits) {
			return Val{T: e.wrap(rt, "(* "+a.T+" "+pow2(uint(cb.Uint64())).String()+")"), Ty: rt}
		}
	case token.SHR:
		if bok && cb.IsUint64() && cb.Uint64() < uint64(bits) {
			return Val{T: "(div " + a.T + " " + pow2(uint(cb.Uint64())).String() + ")", Ty: rt}
		}
	case token.AND:
		if aok && !bok {
			a, b, ca, cb, aok, bok = b, a, cb, ca, bok, aok
		}
		if bok && cb.Sign() >= 0 && (nonneg(a) || !signed) {
			return Val{T: st.name("and", "Int", maskAnd(a.T, cb)), Ty: rt}
		}
		if bok && cb.Sign() >= 0 && signed {
			// two's complement: x & m for m >= 0 equals (x mod 2^bits) & m
			return Val{T: st.name("and", "Int", maskAnd("(mod "+a.T+" "+pow2(bits).String()+")", cb)), Ty: rt}
		}
	case token.AND_NOT:
		if bok && cb.Sign() >= 0 && nonneg(a) {
			return Val{T: st.name("andnot", "Int", "(- "+a.T+" "+maskAnd(a.T, cb)+")"), Ty: rt}
		}
	case token.OR:
		if aok && !bok {
			a, b, ca, cb, aok, bok = b, a, cb, ca, bok, aok
		}
		if bok && cb.Sign() >= 0 && (nonneg(a) || signed) {
			// x | m = x + m - (x & m)   (valid for two's complement as well when no sign bit of m is involved)
			am := a.T
			if signed {
				am = "(mod " + a.T + " " + pow2(bits).String() + ")"
			}
			return Val{T: st.name("or", "Int", e.wrap(rt, "(- (+ "+a.T+" "+cb.String()+") "+maskAnd(am, cb)+")")), Ty: rt}
		}
	case token.XOR:
		if aok && !bok {
			a, b, ca, cb, aok, bok = b, a, cb, ca, bok, aok
		}
		if bok && cb.Sign() >= 0 && nonneg(a) {
			// x ^ m = x + m - 2*(x & m)
			return Val{T: st.name("xor", "Int", "(- (+ "+a.T+" "+cb.String()+") (* 2 "+maskAnd(a.T, cb)+"))"), Ty: rt}
		}
	}
	st.e.notes["bit operation "+op.String()+" on non-constant operands over-approximated by an arbitrary value of the result type"] = true
	return st.fresh("bitop", rt)
}

func (x *Exec) lookup(st *State, fr *frame, in *ssa.Lookup) Val {
	xv := x.val(st, fr, in.X)
	iv := x.val(st, fr, in.Index)
	if mt, ok := xv.Ty.Underlying().(*types.Map); ok {
		has := st.mapHas(xv.Ty, xv.T, st.term(iv))
		// reads of a nil map are allowed in Go and yield zero values
		has = and("(not (= "+xv.T+" 0))", has)
		hv := st.name("has", "Bool", has)
		val := ite(hv, st.mapVal(xv.Ty, xv.T, st.term(iv)), x.e.zero(mt.Elem()))
		v := Val{T: st.name("mv", x.e.sortOf(mt.Elem()), val), Ty: mt.Elem()}
		st.assume(x.e.typeInv(mt.Elem(), v.T))
		st.assumeAllocated(mt.Elem(), v.T)
		if in.CommaOk {
			return Val{Tuple: []Val{v, {T: hv, Ty: types.Typ[types.Bool]}}, Ty: in.Type()}
		}
		return v
	}
	// string index
	x.obligeAt(st, fr, "index-bounds", in.Pos(), "string", and("(<= 0 "+iv.T+")", "(< "+iv.T+" (slen "+xv.T+"))"))
	r := st.fresh("strbyte", in.Type())
	return r
}

func (x *Exec) slice(st *State, fr *frame, in *ssa.Slice) (Val, bool) {
	xv := x.val(st, fr, in.X)
	get := func(v ssa.Value, def string) string {
		if v == nil {
			return def
		}
		return x.val(st, fr, v).T
	}
	switch u := xv.Ty.Underlying().(type) {
	case *types.Slice:
		lo := get(in.Low, "0")
		hi := get(in.High, "(s_len "+xv.T+")")
		mx := get(in.Max, "(s_cap "+xv.T+")")
		g := and("(<= 0 "+lo+")", "(<= "+lo+" "+hi+")", "(<= "+hi+" "+mx+")", "(<= "+mx+" (s_cap "+xv.T+"))")
		x.obligeAt(st, fr, "slice-bounds", in.Pos(), "", g)
		st.assume(g)
		base := "(s_base " + xv.T + ")"
		r := fmt.Sprintf("(mk_slice %s (+ (s_off %s) %s) (- %s %s) (- %s %s))", base, xv.T, lo, hi, lo, mx, lo)
		rv := Val{T: st.name("sl", "Slice", r), Ty: in.Type()}
		if xv.HasArr {
			// re-slicing a slice of statically known shape with literal bounds keeps the shape
			clo, ok1 := constOf(lo)
			l, h := 0, xv.ArrLen
			okShape := true
			if in.Low != nil {
				if ok1 && clo.IsInt64() {
					l = int(clo.Int64())
				} else {
					okShape = false
				}
			}
			if in.High != nil {
				if chi, ok := constOf(hi); ok && chi.IsInt64() {
					h = int(chi.Int64())
				} else {
					okShape = false
				}
			}
			if okShape && 0 <= l && l <= h && h <= xv.ArrLen {
				rv.HasArr, rv.ArrBase, rv.ArrOff, rv.ArrLen = true, xv.ArrBase, xv.ArrOff+l, h-l
			}
		}
		return rv, true
	case *types.Basic: // string
		lo := get(in.Low, "0")
		hi := get(in.High, "(slen "+xv.T+")")
		g := and("(<= 0 "+lo+")", "(<= "+lo+" "+hi+")", "(<= "+hi+" (slen "+xv.T+"))")
		x.obligeAt(st, fr, "slice-bounds", in.Pos(), "string", g)
		st.assume(g)
		x.e.needStrSub()
		return Val{T: st.name("ss", "Str", "(str_sub "+xv.T+" "+lo+" "+hi+")"), Ty: in.Type()}, true
	case *types.Pointer:
		at := u.Elem().Underlying().(*types.Array)
		n := fmt.Sprint(at.Len())
		lo := get(in.Low, "0")
		hi := get(in.High, n)
		mx := get(in.Max, n)
		g := and("(<= 0 "+lo+")", "(<= "+lo+" "+hi+")", "(<= "+hi+" "+mx+")", "(<= "+mx+" "+n+")")
		x.obligeAt(st, fr, "slice-bounds", in.Pos(), "array", g)
		r := fmt.Sprintf("(mk_slice %s %s (- %s %s) (- %s %s))", st.term(xv), lo, hi, lo, mx, lo)
		rv := Val{T: st.name("sl", "Slice", r), Ty: in.Type()}
		if in.Low == nil && in.High == nil && in.Max == nil {
			rv.ArrLen, rv.ArrBase, rv.HasArr = int(at.Len()), st.term(xv), true
		}
		return rv, true
	}
	x.fail(st, "slice", xv.Ty.String())
	return Val{}, false
}

func (x *Exec) convert(st *State, fr *frame, in *ssa.Convert) (Val, bool) {
	e := x.e
	v := x.val(st, fr, in.X)
	from, to := in.X.Type(), in.Type()
	switch {
	case isIntTy(from) && isIntTy(to):
		lo, hi, _, _ := intRange(from)
		lo2, hi2, _, _ := intRange(to)
		if lo != nil && lo2 != nil && lo.Cmp(lo2) >= 0 && hi.Cmp(hi2) <= 0 {
			return Val{T: v.T, Ty: to}, true // widening
		}
		src := v.T
		if len(src) >= 70 {
			src = st.name("cvx", "Int", src)
		}
		return Val{T: st.name("cv", "Int", e.wrap(to, src)), Ty: to}, true
	case isStringTy(to) && isByteSlice(from):
		st.addDynAlloc("(s_len " + v.T + ")")
		return Val{T: "(mkstr " + st.window(v.T) + ")", Ty: to}, true
	case isByteSlice(to) && isStringTy(from):
		e.needBytes()
		st.groups["bytes"] = true
		loc := st.newLoc("sb")
		r := st.name("sl", "Slice", "(mk_slice "+loc+" 0 (slen "+v.T+") (slen "+v.T+"))")
		st.assume(eq(st.window(r), "(sbytes "+v.T+")"))
		return Val{T: r, Ty: to}, true
	case isStringTy(to) && isStringTy(from):
		return Val{T: v.T, Ty: to}, true
	case isStringTy(to) && isIntTy(from):
		r := st.fresh("runestr", to)
		return r, true
	}
	if e.sortOf(from) == e.sortOf(to) {
		v.Ty = to
		return v, true
	}
	x.fail(st, "convert", from.String()+"->"+to.String())
	return Val{}, false
}

func isByteSlice(t types.Type) bool {
	s, ok := t.Underlying().(*types.Slice)
	if !ok {
		return false
	}
	b, ok := s.Elem().Underlying().(*types.Basic)
	return ok && b.Kind() == types.Uint8
}

func (x *Exec) typeAssert(st *State, fr *frame, in *ssa.TypeAssert) (Val, bool) {
	e := x.e
	v := x.val(st, fr, in.X)
	at := in.AssertedType
	if os.Getenv("P9VC_TRACE") != "" {
		fmt.Fprintf(os.Stderr, "typeassert %s in %s: %v dyn=%v term=%.60s\n", shortPos(x.e.fset, in.Pos()), fr.fn.Name(), at, v.Dyn, v.T)
	}
	var ok, val string
	var rv Val
	if it, isI := at.Underlying().(*types.Interface); isI {
		ok = st.name("impl", "Bool", e.implements("(i_tag "+v.T+")", it))
		if v.Dyn != nil {
			if types.Implements(v.Dyn, it) {
				ok = "true"
			} else {
				ok = "false"
			}
		}
		val = ite(ok, v.T, "(mk_iface 0 0)")
		rv = Val{T: val, Ty: at, Dyn: v.Dyn, Payload: v.Payload}
	} else {
		ok = fmt.Sprintf("(= (i_tag %s) %d)", v.T, e.typeTag(at))
		if v.Dyn != nil {
			if types.Identical(v.Dyn, at) {
				ok = "true"
			} else {
				ok = "false"
			}
		}
		ub := e.unbox(at, "(i_ref "+v.T+")")
		if v.Payload != nil && ok == "true" {
			rv = *v.Payload
			rv.Ty = at
		} else {
			if in.CommaOk {
				ub = ite(ok, ub, e.zero(at))
			}
			rv = Val{T: st.name("ta", e.sortOf(at), ub), Ty: at}
			st.assume(implies(ok, e.typeInv(at, rv.T)))
			if ok != "false" {
				st.assumeAllocated(at, rv.T)
			}
		}
	}
	if in.CommaOk {
		return Val{Tuple: []Val{rv, {T: ok, Ty: types.Typ[types.Bool]}}, Ty: in.Type()}, true
	}
	x.obligeAt(st, fr, "type-assert", in.Pos(), typeKey(at), ok)
	st.assume(ok)
	return rv, true
}

// implements yields the condition that the dynamic type with the given tag implements it.
func (e *Engine) implements(tag string, it *types.Interface) string {
	if it.NumMethods() == 0 {
		return "(not (= " + tag + " 0))"
	}
	e.collectTypes()
	var cs []string
	for _, t := range e.tagTypes {
		if types.Implements(t, it) {
			cs = append(cs, fmt.Sprintf("(= %s %d)", tag, e.typeTag(t)))
		}
	}
	// dynamic types not known to the analysed packages
	id := e.ifaceID(it)
	cs = append(cs, fmt.Sprintf("(and (> %s %d) (impl_ext %s %d))", tag, maxKnownTag, tag, id))
	return or(cs...)
}

const maxKnownTag = 100000

func (e *Engine) ifaceID(it *types.Interface) int {
	k := it.String()
	if n, ok := e.ifaceIDs[k]; ok {
		return n
	}
	n := len(e.ifaceIDs) + 1
	e.ifaceIDs[k] = n
	return n
}

// lineHooks fires the contract's `at "<text>"` hooks: assertions/assumptions before the first instruction of a matching
// source line, ghost assignments after its last instruction on this path.
func (x *Exec) lineHooks(st *State, fr *frame, in ssa.Instruction) {
	ct := x.e.contracts[x.e.shortName(fr.fn)]
	if x.c != nil && funcOf(x.c.Name) == x.e.shortName(fr.fn) && len(x.c.Ats) > 0 {
		ct = x.c // a variant contract (f#v) of the function under verification brings its own hooks
	}
	if ct == nil || len(ct.Ats) == 0 {
		return
	}
	pos := in.Pos()
	if !pos.IsValid() {
		switch in.(type) {
		case *ssa.Jump, *ssa.If, *ssa.Return, *ssa.RunDefers:
			// control transfer without position ends the current line
			x.fireAfter(st, fr, ct)
			fr.curLine = ""
		}
		return
	}
	p := x.e.fset.Position(pos)
	key := fmt.Sprintf("%s:%d", p.Filename, p.Line)
	if key == fr.curLine {
		return
	}
	x.fireAfter(st, fr, ct)
	fr.curLine = key
	text := x.e.sourceLine(p.Filename, p.Line)
	fr.curText = text
	x.fireGhostSets(st, fr, ct, "pre", text)
	if os.Getenv("P9VC_TRACE") != "" && len(ct.Ats) > 0 {
		fmt.Fprintf(os.Stderr, "line %s: %s\n", key, strings.TrimSpace(text))
	}
	for i, h := range ct.Ats {
		if h.Kind == "set" || h.Kind == "pre" || !strings.Contains(text, h.Pattern) {
			continue
		}
		x.e.hookHits[ct.Name+"|"+h.Src] = true
		ctx := x.localCtx(st, fr, nil)
		t, err := x.evalClause(st, ctx, h.Clause)
		if err != nil {
			x.errs = append(x.errs, err.Error())
			t = "false"
		}
		if h.Kind == "assert" {
			x.oblige(st, fr.fn, "at", clauseName("at", i, h.Clause), t)
		}
		st.assume(t)
		if h.Kind == "assert" && strings.HasPrefix(h.Clause.Label, "excluded") && !x.feasibleCond(st, "true") {
			// an assertion labelled excluded...: once proved, paths that contradict it are not explored further
			st.dead = true
		}
	}
}

func (x *Exec) fireAfter(st *State, fr *frame, ct *Contract) {
	if fr.curLine == "" {
		return
	}
	x.fireGhostSets(st, fr, ct, "set", fr.curText)
	fr.curText = ""
}

// fireGhostSets runs the ghost assignments of kind `set` (after a line) or `pre` (before a line) whose pattern occurs in
// the line's text. A `pre` hook that names a local which does not exist on this path does not apply there (the same
// source text may occur in several branches).
func (x *Exec) fireGhostSets(st *State, fr *frame, ct *Contract, kind, text string) {
	for _, h := range ct.Ats {
		if h.Kind != kind || !strings.Contains(text, h.Pattern) {
			continue
		}
		g := x.e.ghosts[h.Ghost]
		if g == nil {
			x.errs = append(x.errs, "at set: unknown ghost "+h.Ghost)
			continue
		}
		func() {
			defer func() {
				if r := recover(); r != nil {
					if se, ok := r.(specError); ok {
						if kind == "pre" && strings.Contains(se.msg, "unknown identifier") {
							return
						}
						x.errs = append(x.errs, se.msg)
						x.oblige(st, fr.fn, "contract-error", "at set "+h.Ghost, "false")
						return
					}
					panic(r)
				}
			}()
			ctx := x.localCtx(st, fr, nil)
			ctx.what = h.Src
			kv := ctx.eval(h.KeyX)
			var key string
			switch {
			case isIntTy(kv.Ty):
				key = kv.T
			case kv.Addr != nil:
				key = x.e.objKey(st, kv)
			default:
				key = refOf(st, kv)
			}
			vv := ctx.eval(h.ValX)
			st.ghostWrite(g, key, st.term(vv))
			x.e.hookHits[ct.Name+"|"+h.Src] = true
		}()
	}
}

func (e *Engine) sourceLine(file string, line int) string {
	ls, ok := e.srcCache[file]
	if !ok {
		data, err := os.ReadFile(file)
		if err == nil {
			ls = strings.Split(string(data), "\n")
		}
		e.srcCache[file] = ls
	}
	if line-1 < len(ls) && line >= 1 {
		return ls[line-1]
	}
	return ""
}

// rangeBound: in a range loop over a slice/array/string the header compares index+1 with the length computed before the loop.
func (x *Exec) rangeBound(st *State, fr *frame, li *loopInfo, idx string) string {
	for _, in := range li.header.Instrs {
		if iff, ok := in.(*ssa.If); ok {
			if b, ok := iff.Cond.(*ssa.BinOp); ok && b.Op == token.LSS {
				if lv, ok := fr.regs[b.Y]; ok && lv.T != "" {
					return "(<= (+ " + idx + " 1) (ite (>= " + lv.T + " 0) " + lv.T + " 0))"
				}
			}
		}
	}
	return "true"
}

// concreteRange: the header's length operand is an integer literal (e.g. a variadic argument list, the field list of a struct).
func (x *Exec) concreteRange(st *State, fr *frame, li *loopInfo) bool {
	isRange := false
	for _, al := range fr.allocs {
		if al.Comment == "rangeindex" && x.storeBlockOf(al, li) != nil {
			isRange = true
		}
	}
	if !isRange {
		return false
	}
	for _, in := range li.header.Instrs {
		if iff, ok := in.(*ssa.If); ok {
			if b, ok := iff.Cond.(*ssa.BinOp); ok && b.Op == token.LSS {
				if lv, ok := fr.regs[b.Y]; ok {
					if _, isC := constOf(lv.T); isC && lv.T != "" {
						return true
					}
				}
			}
		}
	}
	return false
}

func (x *Exec) caseSuffix() string {
	v := ""
	if x.c != nil {
		if i := strings.Index(x.c.Name, "#"); i > 0 {
			v = x.c.Name[i:]
		}
	}
	if x.caseName == "" && v == "" {
		return ""
	}
	return "[" + v + x.caseName + "]"
}

// bindDyn pins the dynamic type of an interface-typed parameter (path "v") or of an interface-typed field of the struct a
// pinned pointer parameter refers to (path "v.Message") for this run: the tag is assumed and the Go-side value carries
// the type, so that type switches, reflection and dispatch are resolved statically.
func (x *Exec) bindDyn(st *State, fr *frame, ctx *SpecCtx, path, tname string) error {
	e := x.e
	t, err := e.resolveType(fr.fn.Pkg.Pkg, tname)
	if err != nil {
		return err
	}
	parts := strings.Split(path, ".")
	if lv, ok := ctx.vars[parts[0]]; ok && len(parts) == 2 && isStruct(lv.Ty) {
		isParam := false
		for _, p := range fr.fn.Params {
			if p.Name() == parts[0] {
				isParam = true
			}
		}
		if !isParam {
			// interface-typed field of a logical struct value
			si := e.structInfo(lv.Ty)
			for i, f := range si.Fields {
				if f.Name() == parts[1] {
					cur := Val{T: app(si.Sel[i], lv.T), Ty: f.Type()}
					pv := Val{T: st.name("dyn", e.sortOf(t), e.unbox(t, "(i_ref "+cur.T+")")), Ty: t}
					st.assume(fmt.Sprintf("(= (i_tag %s) %d)", cur.T, e.typeTag(t)))
					st.assume(eq(cur.T, e.mkIface(t, pv.T)))
					st.assume(e.typeInv(t, pv.T))
					st.assumeAllocated(t, pv.T)
					cur.Dyn, cur.Payload = t, &pv
					nv := lv
					nv.Sub = map[int]Val{}
					for k, x := range lv.Sub {
						nv.Sub[k] = x
					}
					nv.Sub[i] = cur
					ctx.vars[parts[0]] = nv
					return nil
				}
			}
			return fmt.Errorf("no field %s", parts[1])
		}
	}
	var pi = -1
	for i, p := range fr.fn.Params {
		if p.Name() == parts[0] {
			pi = i
		}
	}
	if pi < 0 {
		return fmt.Errorf("no parameter %s", parts[0])
	}
	pin := func(v Val) Val {
		pv := Val{T: st.name("dyn", e.sortOf(t), e.unbox(t, "(i_ref "+v.T+")")), Ty: t}
		st.assume(fmt.Sprintf("(= (i_tag %s) %d)", v.T, e.typeTag(t)))
		st.assume(eq(v.T, e.mkIface(t, pv.T)))
		st.assume(e.typeInv(t, pv.T))
		st.assumeAllocated(t, pv.T)
		v.Dyn, v.Payload = t, &pv
		return v
	}
	pv := fr.regs[fr.fn.Params[pi]]
	if len(parts) == 1 {
		if _, ok := pv.Ty.Underlying().(*types.Interface); !ok {
			return fmt.Errorf("%s is not of interface type", path)
		}
		nv := pin(pv)
		fr.regs[fr.fn.Params[pi]] = nv
		fr.params[pi] = nv
		ctx.vars[parts[0]] = nv
		return nil
	}
	if len(parts) != 2 {
		return fmt.Errorf("unsupported path")
	}
	// field of the struct the (pinned) pointer refers to
	ptr := pv
	if pv.Dyn != nil && pv.Payload != nil {
		ptr = *pv.Payload
	}
	pt, ok := ptr.Ty.Underlying().(*types.Pointer)
	if !ok {
		return fmt.Errorf("%s is not a pointer", parts[0])
	}
	si := e.structInfo(pt.Elem())
	for i, f := range si.Fields {
		if f.Name() == parts[1] {
			st.assume("(not (= " + ptr.T + " 0))")
			a := &Addr{Kind: AObj, Loc: ptr.T, RootTy: pt.Elem(), Path: []int{i}}
			cur := st.load(a)
			nv := pin(cur)
			st.shadowWrite(fieldHeapID(si, i), ptr.T, "", nv)
			return nil
		}
	}
	return fmt.Errorf("no field %s", parts[1])
}

func isRangeIndexLoad(v ssa.Value) bool {
	u, ok := v.(*ssa.UnOp)
	if !ok || u.Op != token.MUL {
		return false
	}
	al, ok := u.X.(*ssa.Alloc)
	return ok && al.Comment == "rangeindex"
}

// nextIndex names v+1 for an index value v of a range loop (a constant, so that index arithmetic in quantifier
// patterns keeps matching, and the same constant wherever the successor of v is meant on this path).
func (fr *frame) nextIndex(st *State, v string) string {
	if c, ok := constOf(v); ok && v != "" {
		return bigTerm(new(big.Int).Add(c, big.NewInt(1)))
	}
	if n, ok := fr.idxNext[v]; ok {
		return n
	}
	n := st.freshSort("nx", "Int")
	st.assume("(= " + n + " (+ " + v + " 1))")
	m := make(map[string]string, len(fr.idxNext)+1)
	for k, x := range fr.idxNext {
		m[k] = x
	}
	m[v] = n
	fr.idxNext = m
	return n
}
