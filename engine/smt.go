package main

// SMT-LIB term construction helpers. Terms are plain strings; the engine keeps
// them small by naming intermediate results (State.name).

import (
	"fmt"
	"math/big"
	"sort"
	"strings"
)

func app(f string, args ...string) string {
	if len(args) == 0 {
		return f
	}
	return "(" + f + " " + strings.Join(args, " ") + ")"
}

func itoa(i int64) string {
	if i < 0 {
		return fmt.Sprintf("(- %d)", -i)
	}
	return fmt.Sprintf("%d", i)
}

func bigTerm(b *big.Int) string {
	if b.Sign() < 0 {
		return "(- " + new(big.Int).Neg(b).String() + ")"
	}
	return b.String()
}

func pow2(k uint) *big.Int { return new(big.Int).Lsh(big.NewInt(1), k) }

func and(xs ...string) string {
	var out []string
	for _, x := range xs {
		if x == "true" || x == "" {
			continue
		}
		if x == "false" {
			return "false"
		}
		out = append(out, x)
	}
	if len(out) == 0 {
		return "true"
	}
	if len(out) == 1 {
		return out[0]
	}
	return "(and " + strings.Join(out, " ") + ")"
}

func or(xs ...string) string {
	var out []string
	for _, x := range xs {
		if x == "false" || x == "" {
			continue
		}
		if x == "true" {
			return "true"
		}
		out = append(out, x)
	}
	if len(out) == 0 {
		return "false"
	}
	if len(out) == 1 {
		return out[0]
	}
	return "(or " + strings.Join(out, " ") + ")"
}

func not(x string) string {
	switch x {
	case "true":
		return "false"
	case "false":
		return "true"
	}
	if strings.HasPrefix(x, "(not ") && balanced(x[5:len(x)-1]) {
		return x[5 : len(x)-1]
	}
	return "(not " + x + ")"
}

func balanced(s string) bool {
	d := 0
	for _, c := range s {
		if c == '(' {
			d++
		} else if c == ')' {
			d--
			if d < 0 {
				return false
			}
		}
	}
	return d == 0
}

func implies(a, b string) string {
	if a == "true" {
		return b
	}
	if a == "false" || b == "true" {
		return "true"
	}
	return "(=> " + a + " " + b + ")"
}

func eq(a, b string) string {
	if a == b {
		return "true"
	}
	return "(= " + a + " " + b + ")"
}

func ite(c, a, b string) string {
	if c == "true" {
		return a
	}
	if c == "false" {
		return b
	}
	if a == b {
		return a
	}
	return "(ite " + c + " " + a + " " + b + ")"
}

// sanitize turns an arbitrary Go name into an SMT simple symbol.
func sanitize(s string) string {
	var b strings.Builder
	for _, c := range s {
		switch {
		case c >= 'a' && c <= 'z', c >= 'A' && c <= 'Z', c >= '0' && c <= '9', c == '_':
			b.WriteRune(c)
		case c == '*':
			b.WriteString("P")
		case c == '[':
			b.WriteString("L")
		case c == ']':
			b.WriteString("J")
		default:
			b.WriteByte('_')
		}
	}
	return b.String()
}

// Decls is the global (path independent) set of SMT declarations, in creation order.
type Decls struct {
	order []string          // commands
	seen  map[string]bool   // by key
	sym   map[string]string // arbitrary key -> symbol
	used  map[string]bool   // symbols in use
	// axioms by group
	axioms map[string][]string
}

func newDecls() *Decls {
	return &Decls{seen: map[string]bool{}, sym: map[string]string{}, used: map[string]bool{}, axioms: map[string][]string{}}
}

func (d *Decls) add(key, cmd string) {
	if d.seen[key] {
		return
	}
	d.seen[key] = true
	d.order = append(d.order, cmd)
}

// symbol returns a unique sanitized symbol for key with the given prefix.
func (d *Decls) symbol(prefix, key string) string {
	k := prefix + "\x00" + key
	if s, ok := d.sym[k]; ok {
		return s
	}
	base := prefix + sanitize(key)
	s := base
	for i := 2; d.used[s]; i++ {
		s = fmt.Sprintf("%s_%d", base, i)
	}
	d.used[s] = true
	d.sym[k] = s
	return s
}

func (d *Decls) addAxiom(group, name, term string) {
	d.axioms[group] = append(d.axioms[group], fmt.Sprintf("(assert %s) ; axiom %s", term, name))
}

func (d *Decls) text(groups map[string]bool) string {
	var b strings.Builder
	for _, c := range d.order {
		b.WriteString(c)
		b.WriteByte('\n')
	}
	var gs []string
	for g := range d.axioms {
		if g == "bytes" && groups["nobytes"] {
			continue // lemma about list structure only: bcat stays uninterpreted
		}
		if g == "core" || groups[g] || (g == "bytes_assoc" && groups["bytes"] && !groups["noassoc"] && !groups["nobytes"]) {
			gs = append(gs, g)
		}
	}
	sort.Strings(gs)
	for _, g := range gs {
		for _, a := range d.axioms[g] {
			b.WriteString(a)
			b.WriteByte('\n')
		}
	}
	return b.String()
}
