package main

// Specification expression language: lexer and Pratt parser.

import (
	"fmt"
	"strings"
)

type SExpr interface{}

type (
	SLit     struct{ Kind, Val string } // int, str, bool, nil
	SIdent   struct{ Name string }
	SUnary   struct {
		Op string
		X  SExpr
	}
	SBinary struct {
		Op   string
		X, Y SExpr
	}
	SCond  struct{ C, A, B SExpr }
	SCall  struct {
		Fn   string
		Args []SExpr
	}
	SField struct {
		X    SExpr
		Name string
	}
	SIndex struct{ X, I SExpr }
	SSliceE struct{ X, Lo, Hi SExpr }
	SAssert struct {
		X   SExpr
		Typ string
	}
	SQuant struct {
		Forall bool
		Vars   [][2]string // name, type ("" for int range form)
		Lo, Hi SExpr       // range form
		Body   SExpr
		Trig   []SExpr
	}
)

type tok struct {
	k string // id, num, str, op, eof
	v string
}

func lexSpec(src string) ([]tok, error) {
	var ts []tok
	i := 0
	ops := []string{"<==>", "==>", "::", "==", "!=", "<=", ">=", "&&", "||", "<<", ">>", "&^", "..",
		"(", ")", "[", "]", "{", "}", ".", ",", ":", "?", "<", ">", "!", "+", "-", "*", "/", "%", "&", "|", "^"}
	for i < len(src) {
		c := src[i]
		switch {
		case c == ' ' || c == '\t' || c == '\n' || c == '\r':
			i++
		case c == '"':
			j := i + 1
			var b strings.Builder
			for j < len(src) && src[j] != '"' {
				if src[j] == '\\' && j+1 < len(src) {
					j++
					switch src[j] {
					case 'n':
						b.WriteByte('\n')
					case 't':
						b.WriteByte('\t')
					default:
						b.WriteByte(src[j])
					}
				} else {
					b.WriteByte(src[j])
				}
				j++
			}
			if j >= len(src) {
				return nil, fmt.Errorf("unterminated string")
			}
			ts = append(ts, tok{"str", b.String()})
			i = j + 1
		case c >= '0' && c <= '9':
			j := i
			for j < len(src) && (src[j] >= '0' && src[j] <= '9' || src[j] >= 'a' && src[j] <= 'f' || src[j] >= 'A' && src[j] <= 'F' || src[j] == 'x' || src[j] == 'X' || src[j] == '_') {
				j++
			}
			ts = append(ts, tok{"num", strings.ReplaceAll(src[i:j], "_", "")})
			i = j
		case c == '_' || c == '$' || c == '#' || c >= 'a' && c <= 'z' || c >= 'A' && c <= 'Z':
			j := i + 1
			for j < len(src) && (src[j] == '_' || src[j] == '$' || src[j] == '#' || src[j] >= 'a' && src[j] <= 'z' || src[j] >= 'A' && src[j] <= 'Z' || src[j] >= '0' && src[j] <= '9') {
				j++
			}
			ts = append(ts, tok{"id", src[i:j]})
			i = j
		default:
			found := false
			for _, o := range ops {
				if strings.HasPrefix(src[i:], o) {
					ts = append(ts, tok{"op", o})
					i += len(o)
					found = true
					break
				}
			}
			if !found {
				return nil, fmt.Errorf("unexpected character %q at %d in %q", c, i, src)
			}
		}
	}
	ts = append(ts, tok{"eof", ""})
	return ts, nil
}

type sparser struct {
	ts  []tok
	pos int
	src string
}

func parseSpec(src string) (x SExpr, err error) {
	ts, err := lexSpec(src)
	if err != nil {
		return nil, err
	}
	p := &sparser{ts: ts, src: src}
	defer func() {
		if r := recover(); r != nil {
			err = fmt.Errorf("spec parse error in %q: %v", src, r)
		}
	}()
	x = p.expr(0)
	if p.peek().k != "eof" {
		panic(fmt.Sprintf("unexpected %q", p.peek().v))
	}
	return x, nil
}

func (p *sparser) peek() tok { return p.ts[p.pos] }
func (p *sparser) next() tok { t := p.ts[p.pos]; p.pos++; return t }
func (p *sparser) isOp(v string) bool {
	t := p.peek()
	return t.k == "op" && t.v == v
}
func (p *sparser) expect(v string) {
	t := p.next()
	if t.v != v {
		panic(fmt.Sprintf("expected %q, got %q", v, t.v))
	}
}

// binding powers
func binPrec(op string) (int, bool) { // (prec, rightAssoc)
	switch op {
	case "<==>":
		return 1, false
	case "==>":
		return 2, true
	case "?":
		return 3, true
	case "||":
		return 4, false
	case "&&":
		return 5, false
	case "==", "!=", "<", "<=", ">", ">=":
		return 6, false
	case "+", "-", "|", "^":
		return 7, false
	case "*", "/", "%", "&", "<<", ">>", "&^":
		return 8, false
	}
	return -1, false
}

func (p *sparser) expr(min int) SExpr {
	lhs := p.unary()
	for {
		t := p.peek()
		if t.k != "op" {
			return lhs
		}
		prec, right := binPrec(t.v)
		if prec < 0 || prec < min {
			return lhs
		}
		p.next()
		if t.v == "?" {
			a := p.expr(0)
			p.expect(":")
			b := p.expr(prec)
			lhs = &SCond{lhs, a, b}
			continue
		}
		nmin := prec + 1
		if right {
			nmin = prec
		}
		rhs := p.expr(nmin)
		lhs = &SBinary{t.v, lhs, rhs}
	}
}

func (p *sparser) unary() SExpr {
	t := p.peek()
	if t.k == "op" {
		switch t.v {
		case "!", "-", "*", "^", "&":
			p.next()
			return &SUnary{t.v, p.unary()}
		}
	}
	return p.postfix(p.primary())
}

func (p *sparser) typeText(stop ...string) string {
	// reads tokens forming a type until one of stop ops at depth 0
	var b strings.Builder
	depth := 0
	for {
		t := p.peek()
		if t.k == "eof" {
			break
		}
		if t.k == "op" && depth == 0 {
			hit := false
			for _, s := range stop {
				if t.v == s {
					hit = true
				}
			}
			if hit {
				break
			}
		}
		if t.k == "op" && (t.v == "(" || t.v == "[") {
			depth++
		}
		if t.k == "op" && (t.v == ")" || t.v == "]") {
			if depth == 0 {
				break
			}
			depth--
		}
		b.WriteString(t.v)
		p.next()
	}
	return b.String()
}

func (p *sparser) primary() SExpr {
	t := p.next()
	switch t.k {
	case "num":
		return &SLit{"int", t.v}
	case "str":
		return &SLit{"str", t.v}
	case "id":
		switch t.v {
		case "true", "false":
			return &SLit{"bool", t.v}
		case "nil":
			return &SLit{"nil", ""}
		case "forall", "exists":
			q := &SQuant{Forall: t.v == "forall"}
			if p.isOp("(") {
				// range form: forall(j, lo, hi, body)
				p.next()
				v := p.next()
				p.expect(",")
				q.Vars = [][2]string{{v.v, ""}}
				q.Lo = p.expr(0)
				p.expect(",")
				q.Hi = p.expr(0)
				p.expect(",")
				q.Body = p.expr(0)
				p.expect(")")
				return q
			}
			for {
				v := p.next()
				ty := p.typeText(",", "::")
				q.Vars = append(q.Vars, [2]string{v.v, ty})
				if p.isOp(",") {
					p.next()
					continue
				}
				break
			}
			p.expect("::")
			for p.isOp("{") {
				p.next()
				q.Trig = append(q.Trig, p.expr(0))
				for p.isOp(",") {
					p.next()
					q.Trig = append(q.Trig, p.expr(0))
				}
				p.expect("}")
			}
			q.Body = p.expr(0)
			return q
		}
		if p.isOp("(") {
			p.next()
			c := &SCall{Fn: t.v}
			if t.v == "typeis" || t.v == "is" {
				c.Args = append(c.Args, p.expr(0))
				p.expect(",")
				c.Args = append(c.Args, &SLit{"type", p.typeText(")")})
				p.expect(")")
				return c
			}
			for !p.isOp(")") {
				c.Args = append(c.Args, p.expr(0))
				if p.isOp(",") {
					p.next()
				}
			}
			p.expect(")")
			return c
		}
		return &SIdent{t.v}
	case "op":
		if t.v == "(" {
			x := p.expr(0)
			p.expect(")")
			return x
		}
	}
	panic(fmt.Sprintf("unexpected token %q", t.v))
}

func (p *sparser) postfix(x SExpr) SExpr {
	for {
		switch {
		case p.isOp("."):
			p.next()
			if p.isOp("(") {
				p.next()
				ty := p.typeText(")")
				p.expect(")")
				x = &SAssert{x, ty}
				continue
			}
			n := p.next()
			if id, ok := x.(*SIdent); ok && p.isOp("(") {
				// qualified call of a library function: strings.ContainsAny(...)
				p.next()
				c := &SCall{Fn: id.Name + "." + n.v}
				for !p.isOp(")") {
					c.Args = append(c.Args, p.expr(0))
					if p.isOp(",") {
						p.next()
					}
				}
				p.expect(")")
				x = c
				continue
			}
			x = &SField{x, n.v}
		case p.isOp("["):
			p.next()
			var lo, hi SExpr
			if !p.isOp(":") {
				lo = p.expr(0)
			}
			if p.isOp(":") {
				p.next()
				if !p.isOp("]") {
					hi = p.expr(0)
				}
				p.expect("]")
				x = &SSliceE{x, lo, hi}
				continue
			}
			p.expect("]")
			x = &SIndex{x, lo}
		default:
			return x
		}
	}
}
