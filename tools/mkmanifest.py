#!/usr/bin/env python3
# Regenerates /verif/MANIFEST.json from the table below (single source of truth for what is claimed).
import json, subprocess
props=[json.loads(l) for l in open('/verif/properties.jsonl')]
TB="Trusted: go/ssa naive-form translation, the p9vc VC generator, z3/cvc5; extern contracts for the Go library functions used (listed in the evidence file); goroutine interference on shared memory not modelled. "
claims={
 "C02":dict(level="proof",design="§3-C02",
   text="Deductive proof, for all messages/msize/contexts, that WriteFcall emits exactly one frame `le4(4+size) ++ enc(fcall)` with 4+size <= msize or nothing (non-I/O error => output unchanged; cancelled context => nothing), that an oversize Twrite is cut to exactly msize with Data a prefix slice of the caller's slice and the byte heap untouched, that Tread.Count becomes min(Count, msize-11) in exact uint32 arithmetic, that every other message is unchanged or rejected with overflowErr.size = excess. Functions under contract: (*channel).maybeTruncate, sendmsg, (*channel).WriteFcall (msgmsize, newFcall, Overflow inlined).",
   note=TB+"Codec interface contract (Size = wireSize, Marshal = encFcall with blen = wireSize; wire sizes of Twrite/Tread/Rread) is assumed here; bufio.Writer is a transparent byte pipe; partial output on an I/O error of the connection is outside the all-or-nothing claim; Twrite data longer than 2^32-24 bytes excluded (not representable).",
   technique="contract-based deductive verification (WP over go/ssa, SMT)"),
 "C03":dict(level="proof",design="§3-C03",
   text="Deductive proof over a ghost byte stream rem(reader): readmsg/ReadFcall consume exactly one frame (rem' = drop(rem, size)) on success, on overflow (error size = size - msize) and on an undecodable body; size prefix < 4 gives an error, never a panic (every slice/index site is an obligation); the bytes handed to the decoder are exactly the frame body, so the result is a function (decFcall) of that body and msize only; inbound Tread.Count is clamped. 'All chunkings' follows from the extern contracts of binary.Read/io.ReadFull/io.CopyN (consume exactly k bytes regardless of chunking), 'every later frame' by induction over the per-call contract.",
   note=TB+"io/binary extern contracts; Codec.Unmarshal contract (deterministic function of its byte argument; decoded size <= bytes consumed) assumed here (C01/C04 scope). Two genuine defects found by these obligations were repaired in /repo (fix: commits a64aba5, 2705734).",
   technique="contract-based deductive verification (WP over go/ssa, SMT)"),
 "C10":dict(level="proof",design="§3-C10",
   text="Deductive proof for all 2^32 x 2^32 offers: servernegotiate leaves msize = min(own, client's), answers Rversion(NOTAG) carrying exactly that msize in one frame that fits it, refuses (error, nothing written) when the first message is not a decodable Tversion or the reply does not fit; clientnegotiate proposes its own msize, never ends above it and adopts min(own, server's); SetMSize keeps len(rdbuf) = msize so that frames of exactly msize are accepted (C03) while none longer is emitted (C02).",
   note=TB+"Relies on the contracts of ReadFcall/WriteFcall (verified under C02/C03) and the Codec contract. ServeConn's 'nothing dispatched before negotiation succeeds' is not yet under contract.",
   technique="contract-based deductive verification (WP over go/ssa, SMT)"),
 "C16":dict(level="other",design="§3-C16",
   text="Deductive proof (unbounded, all name lists over abstract strings): ValidPath returns >= 0 exactly for lists whose elements are non-empty, not '.', separator-free and have '..' only as a leading run, and then returns the length of that run; NormalizePath returns -1 exactly when some element has a separator, otherwise a fresh list of the shape '..'^lo ++ plain names with lo returned, is the identity on lists already of that shape (so it is idempotent) and never modifies its argument; WalkName accepts exactly the valid lists whose '..' run does not exceed the directory depth (never climbs above root) and otherwise returns dir and an error; CreateName accepts exactly plain names; ToWalk yields only safe names, '..' only leading, none for absolute paths. All index/slice sites are obligations. Level 'other' because two clauses are not decided: that path.Join's result is the stepwise resolution in canonical form (library lemma, not proved) and NormalizePath's agreement with stepwise resolution of '..' (fold equivalence not yet under contract).",
   note=TB+"strings.ContainsAny/Count, path.Join/IsAbs are uninterpreted deterministic functions; their values on string literals are computed by running the real functions; two library lemmas assumed (path.IsAbs(p) => len(p) >= 1, strings.Count >= 0).",
   technique="contract-based deductive verification (WP over go/ssa, loop invariants, SMT)"),
 "C08":dict(level="proof",design="§3-C08",
   text="Deductive proof that every public method of the server session (Attach, Auth, Walk, Open, Create, Read, Write, Stat, WStat, Clunk, Remove, Stop and the helpers getRef/newRef/delRef/openLocked) preserves the fid-table invariant (well-formed, injective, bound entries distinct) and has the statement's clause as its postcondition over the WHOLE table view, for every fid value, every name list and every outcome of the FileSys/Dirent/File calls (arbitrary results and errors): unbound or NOFID => error and table unchanged; duplicate target => error, table unchanged; only a complete walk binds (new fid gets a fresh entry, all other fids identical; in place: the fid moves and keeps its open file); Clunk/Remove always unbind and leave all others identical; Open at most once; Create rebinds the fid to the new entry, open with the given mode; Read/Write need an open file whose mode&3 permits them. Histories follow by induction over the per-call contracts.",
   note=TB+"sync.Map/sync.Mutex extern contracts (atomic map, ledger for locks); environment contracts for FileSys/Dirent/File (arbitrary results; they cannot touch the session's table; FileSys.Attach returns a non-nil entry on success); sequential (quiescent) calls - concurrency is C14.",
   technique="contract-based deductive verification (WP over go/ssa, quantified table invariant, SMT)"),
 "C13":dict(level="proof",design="§3-C13",
   text="Deductive proof of a release ledger on the same session functions: every entry bound to a fid is issued and not released (table invariant); Dirent.Clunk/Remove require 'not yet released' (so a second release or a use after release is a failed precondition at that call site) and every other Dirent call requires it too; Clunk/Remove release exactly the fid's entry and nothing else; a complete in-place walk releases exactly the old entry; a successful Create consumes the parent entry and binds the new one; failing paths release nothing that stays bound; Stop leaves no fid bound and has released every entry that was bound (loop over sync.Map.Range with an invariant over the visited set).",
   note=TB+"Environment contract: entries handed out by FileSys.Attach / Dirent.Walk / Dirent.Create are new objects; Dirent.Create consumes its receiver on success (filesys.go). One genuine defect repaired (fix: ad56075, create-then-opendir failure path). Not covered: Stop racing in-flight handlers (that is C11).",
   technique="contract-based deductive verification (ghost resource ledger, SMT)"),
 "C14":dict(level="other",design="§3-C14",
   text="Thread-local lock-discipline facts proved deductively for every session method and every FileSys outcome, valid under any interleaving: (a) at every return no SFid that is or was in the table is left locked; (b') every Unlock is of a held mutex, no Lock of a mutex already held by the same operation (self-deadlock); (c) no blocking Lock while another lock is held unless the mutex belongs to an object allocated by this call and not yet published (so no lock-order cycle between operations). Together: no fid is left locked and no operation can deadlock on the session's own locks if FileSys calls return. Level 'other': atomicity per fid / linearizability is argued from these facts plus the atomic sync.Map operations, not machine-checked, and data-race freedom is not decided by this technique.",
   note=TB+"Mutex/sync.Map extern contracts; FileSys calls assumed to return; two genuine defects repaired (fix: 2c82984 Attach lock leak, ad56075 Create self-deadlock).",
   technique="contract-based deductive verification (ghost lock ledger, SMT)"),
 "C20":dict(level="proof",design="§3-C20",
   text="Deductive proof on the client file-system layer with the Session below it as environment (abstract state: which fids the server has bound, how many calls were issued per fid): newFid/newEnt are strictly increasing so every new entry gets a fid larger than all earlier ones (pairwise distinct); Attach/Walk return an entry exactly when the server bound the new fid, and on every failing or partial path the set of server-bound fids is unchanged (no leak); Stat/WStat/Open/Create/Read/Write/Clunk/Remove issue exactly one session call, on the entry's own fid, Clunk/Remove leave that fid unbound; Walk sends the normalised names on the entry's fid and never touches another fid.",
   note=TB+"Session environment contract (a complete walk onto a new fid binds it, anything else binds nothing; Clunk/Remove always unbind) - this is the C08 view; fid allocator assumed below 2^32-2 (no wrap); one genuine defect repaired (fix: cEnt.Walk compared with len(names)).",
   technique="contract-based deductive verification (WP over go/ssa, ghost server view, SMT)"),
}
reasons={}
checks=[]
for p in props:
    i=p['id']
    if i in claims:
        c=claims[i]
        checks.append({"property_id":i,"quick_cmd":f"bin/p9vc check {i} --tier quick","thorough_cmd":f"bin/p9vc check {i} --tier thorough",
          "evidence_file":f"/verif/evidence/{i}.json","replay_cmd_template":"bin/p9vc replay {path}","engine":"p9vc",
          "level_claimed":{"category":c["level"],"text":c["text"],"design_ref":c["design"]},"level_note":c["note"],"technique":c["technique"]})
na=[{"property_id":p['id'],"reason":reasons.get(p['id'],"contracts for this property are not yet written (engine under construction); not claimed")} for p in props if p['id'] not in claims]
m={"version":1,
 "setup_cmd":"cd /verif/engine && GOFLAGS=-mod=mod GOPROXY=off GOSUMDB=off GOTOOLCHAIN=local go build -o /verif/bin/p9vc .",
 "hooks":{"guard":"verif","enable":"go build -tags verif: the only hooks are comment-only contract files verif_contracts.go (//go:build verif); the checks load /repo with this tag",
   "baseline_off_cmd":"cd /repo && GOFLAGS=-mod=mod GOPROXY=off GOSUMDB=off go test -vet=off -count=1 ./...",
   "source_commits":subprocess.run("git -C /repo log --format=%h --grep='^verif hooks'",shell=True,capture_output=True,text=True).stdout.split(),"add_only":True},
 "engines":[{"name":"p9vc","path":"/verif/engine","serves_properties":sorted(claims),"kind_free_text":"contract-based deductive verifier for Go written for this task: loads /repo (working tree) with go/packages, builds go/ssa in naive form, symbolically executes the functions under contract path by path (loops cut at invariants, callees replaced by contracts, Go library calls by extern contracts), emits one SMT-LIB obligation per precondition/postcondition/invariant/panic site and discharges it with z3 4.8.12, z3 5.1.0 and cvc5 1.0 in parallel"}],
 "checks":checks,
 "notes":"See DESIGN.md. Contracts live in /repo/**/verif_contracts.go (comment-only, build tag verif). known_findings.txt lists recorded findings and fixed defects.",
 "not_applicable":na}
json.dump(m,open('/verif/MANIFEST.json','w'),indent=1)
print(len(checks),"checks",len(na),"n/a")
