#!/bin/bash
# usage: seed_confirm.sh <srcdir with patch.diff demo_test.go notes.md> <dest name e.g. C02_A> <property id> [demo dir relative to repo root]
# Confirms a seeded change in a scratch worktree of /repo HEAD: suite passes, demo fails with the change and passes without.
set -u
export GOFLAGS=-mod=mod GOPROXY=off GOSUMDB=off GOTOOLCHAIN=local
src=$1; name=$2; prop=$3; ddir=${4:-.}
wt=/tmp/sc_$name
git -C /repo worktree remove --force $wt 2>/dev/null; rm -rf $wt
git -C /repo worktree add -q --detach $wt HEAD || exit 2
cd $wt
if ! git apply --3way $src/patch.diff 2>/tmp/sc_apply.log && ! patch -p1 -s < $src/patch.diff; then echo "APPLY-FAILED"; cat /tmp/sc_apply.log; cd /; git -C /repo worktree remove --force $wt; exit 3; fi
git diff HEAD > /tmp/sc_$name.diff
suite=$(go test -vet=off -count=1 ./... 2>&1 | grep -c "^FAIL\|^---" )
cp $src/demo_test.go $ddir/zz_demo_test.go
tname=$(grep -o "func TestSeeded[A-Za-z0-9_]*" $ddir/zz_demo_test.go | head -1 | sed 's/func //')
with=$(cd $ddir && go test -vet=off -count=1 -timeout 120s -run "^$tname\$" . 2>&1 | tail -1)
git reset -q --hard HEAD
cp $src/demo_test.go $ddir/zz_demo_test.go
without=$(cd $ddir && go test -vet=off -count=1 -timeout 120s -run "^$tname\$" . 2>&1 | tail -1)
echo "suite_failures=$suite with_change=[$with] without_change=[$without]"
ok=0
if [ "$suite" = "0" ] && echo "$with" | grep -q "^FAIL" && echo "$without" | grep -q "^ok"; then ok=1; fi
if [ $ok = 1 ]; then
  d=/verif/seeded/$name; mkdir -p $d
  cp /tmp/sc_$name.diff $d/patch.diff; cp $src/demo_test.go $d/demo_test.go; cp $src/notes.md $d/notes.md 2>/dev/null
  python3 - <<PY
import json
json.dump({"property":"$prop","name":"$name","demo_dir":"$ddir","demo_test":"$tname","confirmed":{"suite_passes_with_change":True,"demo_with_change":"$with".strip(),"demo_without_change":"$without".strip()},
 "ran":"scratch worktree of /repo HEAD: git apply patch.diff; go test -vet=off -count=1 ./... ; go test -run ^$tname\$ (fails); git checkout -- .; go test -run ^$tname\$ (passes)",
 "needs_to_manifest":"see notes.md","origin":"independent sub-agent given only the property text and a scratch worktree"}, open("$d/meta.json","w"), indent=1)
PY
  echo "CONFIRMED $name"
else
  echo "NOT-CONFIRMED $name"
fi
cd /; git -C /repo worktree remove --force $wt
