#!/usr/bin/env python3
# Generates the 9P2000 layout definitions (//@ axiom [wiredef] ...) for /repo/verif_contracts.go from the table below,
# which is transcribed from the 9P2000 manual pages (intro(5), version(5) ... stat(5)).  Run once; the output is pasted
# into the contract file (between the markers) and is what the engine reads.
import sys
# field encodings: 1/2/4/8 = little-endian integer of that width, s = string[s], q = qid[13], D = data: count[4] data,
# S = stat[n] preceded by its n[2] (the doubled size prefix), W = nwname[2] wname*[s], Q = nwqid[2] qid*[13]
T = [
 ("Tversion",100,[("MSize",4),("Version","s")]),
 ("Rversion",101,[("MSize",4),("Version","s")]),
 ("Tauth",102,[("Afid",4),("Uname","s"),("Aname","s")]),
 ("Rauth",103,[("Qid","q")]),
 ("Tattach",104,[("Fid",4),("Afid",4),("Uname","s"),("Aname","s")]),
 ("Rattach",105,[("Qid","q")]),
 ("Rerror",107,[("Ename","s")]),
 ("Tflush",108,[("Oldtag",2)]),
 ("Rflush",109,[]),
 ("Twalk",110,[("Fid",4),("Newfid",4),("Wnames","W")]),
 ("Rwalk",111,[("Qids","Q")]),
 ("Topen",112,[("Fid",4),("Mode",1)]),
 ("Ropen",113,[("Qid","q"),("IOUnit",4)]),
 ("Tcreate",114,[("Fid",4),("Name","s"),("Perm",4),("Mode",1)]),
 ("Rcreate",115,[("Qid","q"),("IOUnit",4)]),
 ("Tread",116,[("Fid",4),("Offset",8),("Count",4)]),
 ("Rread",117,[("Data","D")]),
 ("Twrite",118,[("Fid",4),("Offset",8),("Data","D")]),
 ("Rwrite",119,[("Count",4)]),
 ("Tclunk",120,[("Fid",4)]),
 ("Rclunk",121,[]),
 ("Tremove",122,[("Fid",4)]),
 ("Rremove",123,[]),
 ("Tstat",124,[("Fid",4)]),
 ("Rstat",125,[("Stat","S")]),
 ("Twstat",126,[("Fid",4),("Stat","S")]),
 ("Rwstat",127,[]),
]
def items(x, k):
    # the byte-string pieces of one field, in wire order (a flat list: the layout is their concatenation)
    if k in (1,2,4,8): return ["le%d(%s)" % (k, x)]
    if k == "s": return ["le2(len(%s))" % x, "sbytes(%s)" % x]
    if k == "q": return ["le1(%s.Type)" % x, "le4(%s.Version)" % x, "le8(%s.Path)" % x]
    if k == "D": return ["le4(len(%s))" % x, "bytes(%s)" % x]
    if k == "W": return ["le2(len(%s))" % x, "namesUpto(%s, len(%s))" % (x, x)]
    if k == "Q": return ["le2(len(%s))" % x, "qidsUpto(%s, len(%s))" % (x, x)]
    if k == "S":
        r = ["le2(dirLen(%s) + 2)" % x, "le2(dirLen(%s))" % x, "le2(%s.Type)" % x, "le4(%s.Dev)" % x] + items(x + ".Qid", "q")
        r += ["le4(%s.Mode)" % x, "le4(unix(%s.AccessTime))" % x, "le4(unix(%s.ModTime))" % x, "le8(%s.Length)" % x]
        for f in ("Name", "UID", "GID", "MUID"): r += items(x + "." + f, "s")
        return r
def enc(m, f, k):
    return items("%s.%s" % (m, f), k)
def rep(m, f, k):
    x = "%s.%s" % (m, f)
    return {"s":"len(%s) <= 65535","D":"len(%s) <= 4294967295","S":"repDir(%s)","W":"repNames(%s)","Q":"len(%s) <= 65535"}.get(k, "") % x if k in "sDSWQ" else ""
out = []
for name, code, fields in T:
    ty = "Message" + name
    out.append("//@ axiom [wirekind] kind_%s: forall m Message :: {kindOf(m)} typeis(m, %s) <==> kindOf(m) == %d" % (name, ty, code))
for name, code, fields in T:
    ty = "Message" + name
    m = "f.Message.(%s)" % ty
    t = "bcat(bcat(bempty, le1(kindOf(f.Message))), le2(f.Tag))"
    for f, k in fields:
        for it in enc(m, f, k):
            t = "bcat(%s, %s)" % (t, it)
    out.append("//@ axiom [wiredef] enc_%s: forall f Fcall :: {layout(f)} typeis(f.Message, %s) ==> layout(f) == %s" % (name, ty, t))
    # the same concatenation, right-nested (the shape a reader consumes); proved equal by associativity
    its = ["le1(kindOf(f.Message))", "le2(f.Tag)"]
    for f, k in fields:
        its += enc(m, f, k)
    r = its[-1]
    for it in reversed(its[:-1]):
        r = "bcat(%s, %s)" % (it, r)
    out.append("//@ lemma [wiredefr from wirekind wiredef assoc_r bytes noassoc] [C01] encr_%s: forall f Fcall :: {layout(f)} typeis(f.Message, %s) ==> layout(f) == %s" % (name, ty, r))
for name, code, fields in T:
    ty = "Message" + name
    m = "f.Message.(%s)" % ty
    rs = [rep(m, f, k) for f, k in fields if not isinstance(k, int)]
    rs = [r for r in rs if r]
    out.append("//@ axiom [wirekind] rep_%s: forall f Fcall :: {representable(f)} typeis(f.Message, %s) ==> (representable(f) <==> %s)" % (name, ty, " && ".join(rs) if rs else "true"))
print("\n".join(out))
print("// kinds: " + " ".join("Message"+n for n,_,_ in T))
