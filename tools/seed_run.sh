#!/bin/bash
# usage: seed_run.sh <seed name> [property ids...]   -- applies seeded/<name>/patch.diff to /repo, runs the quick checks, reverts.
name=$1; shift
d=/verif/seeded/$name
props="$@"
[ -z "$props" ] && props=$(python3 -c "import json;print(json.load(open('$d/meta.json'))['property'])")
if [ -n "$(git -C /repo status --porcelain --untracked-files=no)" ]; then echo "/repo not clean"; exit 2; fi
git -C /repo apply $d/patch.diff || { echo "apply failed"; exit 3; }
for p in $props; do
  out=$(cd /verif && bin/p9vc check $p 2>&1); rc=$?
  echo "$out" | grep "^VIOLATION\|^KNOWN\|^property\|^ENGINE" | cut -c1-230
  echo "seed=$name property=$p exit=$rc"
done
git -C /repo checkout -- .
