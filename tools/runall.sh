#!/bin/bash
# Runs every claimed check's quick command on the current tree (use before committing evidence).
cd /verif
if [ -n "$(git -C /repo status --porcelain --untracked-files=no)" ]; then echo "WARNING: /repo has uncommitted changes"; fi
rc=0
for cmd in $(python3 -c "import json;[print(c['property_id']) for c in json.load(open('MANIFEST.json'))['checks']]"); do
  out=$(bin/p9vc check $cmd 2>&1); r=$?
  echo "$out" | grep "^VIOLATION\|^KNOWN\|^property\|^ENGINE" | cut -c1-220
  [ $r != 0 ] && rc=1
done
python3-vt - <<'PY'
import json,jsonschema,glob
sch=json.load(open('/root/.vp/EVIDENCE.schema.json'))
m=json.load(open('/verif/MANIFEST.json'))
for c in m['checks']:
    e=json.load(open(c['evidence_file']))
    jsonschema.validate(e,sch)
    assert e['level']==c['level_claimed']['category'],(c['property_id'],e['level'])
    if e['level']=='proof': assert e['coverage']['obligations']==e['coverage']['discharged'],c['property_id']
print('evidence files valid')
PY
exit $rc
